#!/bin/sh
# usage: run_witnesses.sh [-run regexp] : runs the defect witnesses against /repo's working tree via -overlay
R=${VERIF_REPO:-/repo}
cd $R || exit 2
export GOFLAGS=-mod=mod GOPROXY=off GOSUMDB=off GOTOOLCHAIN=local
ov=$(mktemp /tmp/verif-ov.XXXXXX.json)
printf '{"Replace":{"'"$R"'/zz_verif_witness_test.go":"/verif/replay/witnesses/defects_test.go"}}' > "$ov"
go test -overlay "$ov" -vet=off -count=1 -timeout 120s "$@" .
rc=$?
rm -f "$ov"
exit $rc
