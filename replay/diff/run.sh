#!/bin/sh
# usage: run.sh [family]   (cwd anywhere)
# Builds the scenario program against the working tree (VERIF_REPO, default /repo) and against the verified baseline copy,
# runs both and prints one JSON line: {"name":"diffsearch","differs":bool,"scenarios":N,"first":{...}} where `first` is the
# first scenario whose transcript differs (input, outcome on the verified tree, outcome on the current tree).
# Scratch files live in a temporary directory that is removed at the end.
export GOFLAGS=-mod=mod GOPROXY=off GOSUMDB=off GOTOOLCHAIN=local CGO_ENABLED=0
R=${VERIF_REPO:-/repo}
D=$(mktemp -d /tmp/verif-diff.XXXXXX)
trap 'rm -rf $D' EXIT
cd /verif/replay/diff || exit 2
sed "s#=> /repo#=> $R#" go.cur.mod > $D/cur.mod; cp go.cur.sum $D/cur.sum
cp go.base.mod $D/base.mod; cp go.base.sum $D/base.sum
if ! go build -modfile=$D/cur.mod -o $D/cur . 2> $D/cur.err; then
  printf '{"name":"diffsearch","differs":false,"note":"the scenario program does not build against the working tree (the public API changed?)"}\n'; exit 0
fi
go build -modfile=$D/base.mod -o $D/base . 2> $D/base.err || { printf '{"name":"diffsearch","differs":false,"note":"baseline does not build"}\n'; exit 0; }
fam=${1:-all}
( cd $D && timeout 300 ./base $fam > base.out 2>&1; timeout 300 ./cur $fam > cur.out 2>&1 )
python3 - $D/base.out $D/cur.out <<'PY'
import sys, json, re
def load(p):
    blocks, cur = [], None
    for line in open(p, errors='replace'):
        line = line.rstrip('\n')
        # which of several failing conversions is reported first depends on map order
        line = re.sub(r'^Error: (strconv\.\w+: parsing .*|bad level .*)$', 'Error: <a value could not be converted>', line)
        if re.match(r'^#(\d+|END) ', line):
            cur = [line, []]; blocks.append(cur)
        elif cur is not None:
            cur[1].append(line)
    return blocks
b, c = load(sys.argv[1]), load(sys.argv[2])
res = {"name": "diffsearch", "differs": False, "scenarios": len(b)}
for i in range(max(len(b), len(c))):
    bb = b[i] if i < len(b) else ["(missing: the run on the verified tree ended here)", []]
    cc = c[i] if i < len(c) else ["(missing: the run on the current tree ended here, crash or timeout)", []]
    if bb != cc:
        res["differs"] = True
        k = 0
        while k < len(bb[1]) and k < len(cc[1]) and bb[1][k] == cc[1][k]:
            k += 1
        res["first"] = {"scenario": bb[0] if bb[0] == cc[0] else bb[0] + " / " + cc[0],
                        "first_differing_line": {"verified_tree": bb[1][k] if k < len(bb[1]) else "(no such line)", "current_tree": cc[1][k] if k < len(cc[1]) else "(no such line)"},
                        "verified_tree": "\n".join(bb[1])[:1500], "current_tree": "\n".join(cc[1])[:1500]}
        res["differing_scenarios"] = sum(1 for j in range(min(len(b), len(c))) if b[j] != c[j]) + abs(len(b) - len(c))
        break
print(json.dumps(res))
PY
