// diffsearch: a fixed battery of small scenarios run through the PUBLIC API of github.com/jawher/mow.cli. The program is
// built twice by replay/diff/run.sh -- against /repo's working tree and against the pristine copy of the tree the
// contracts were verified on (/verif/baseline/mowcli) -- and the two transcripts are compared. It decides nothing: it is
// run only after a deductive obligation has failed, to attach a concrete input on which the current tree behaves
// differently from the verified one to the VIOLATION report.
package main

import (
	"flag"
	"fmt"
	"os"
	"os/exec"
	"sort"
	"strings"
	"time"

	cli "github.com/jawher/mow.cli"
)

var scenario int

func header(format string, a ...interface{}) {
	scenario++
	fmt.Printf("#%d %s\n", scenario, fmt.Sprintf(format, a...))
}

// guard runs f with a deadline; a panic is reported as an outcome
func guard(f func() string) {
	done := make(chan string, 1)
	go func() {
		defer func() {
			if r := recover(); r != nil {
				done <- fmt.Sprintf("PANIC %v", r)
			}
		}()
		done <- f()
	}()
	select {
	case s := <-done:
		fmt.Printf("  => %s\n", s)
	case <-time.After(5 * time.Second):
		fmt.Printf("  => TIMEOUT (no result within 5s)\n")
		os.Exit(0)
	}
}

// ---- custom value types (C19) -----------------------------------------------------------------------------------------

type level struct {
	calls   []string
	asFlag  bool
	failOn  string
	cleared int
}

func (l *level) Set(s string) error {
	l.calls = append(l.calls, "Set("+s+")")
	if s == l.failOn {
		return fmt.Errorf("bad level %q", s)
	}
	return nil
}
func (l *level) String() string   { return fmt.Sprintf("level%v", l.calls) }
func (l *level) IsBoolFlag() bool { return l.asFlag }

type multi struct{ level }

func (m *multi) Clear() { m.cleared++; m.calls = append(m.calls, "Clear") }

// ---- family 1: the parse pipeline --------------------------------------------------------------------------------------

var specs = []string{
	"", "[OPTIONS]", "[OPTIONS] X", "[OPTIONS] X Y", "X...", "X [Y]", "[X] Y", "-a", "[-a]", "[-a] X", "-a... X", "[-a...] X", "[-ab]", "[-ab] [-n]", "[-ab] -n",
	"-n", "[-n]", "-n... X", "[-n]... X", "[-o]", "-o...", "[-o...] X", "-o X", "[-o] X...", "(-a | -b)", "(-a | -b)...", "(-a X) | (-b Y)", "[-a | -b] X",
	"-- X", "[-a] -- X...", "X -- Y", "[ -- ]... X", "(-- X) | (-- X Y)", "-a [-b] X...", "[-abn]", "[-a [-b]]", "-a=<flag> X", "--num=<n> [X]", "--along", "[--along] [--out]... X",
	"(-a -b)... X", "[-n X]...", "X -z=<file>", "X -- -a=<x>", "-a=<значение> x", "[--name=<名前名前>] NOPE", "--2fa", "[--2fa] X", "--rm", "[-r | --rm] X", "X... Y", "[X...] [Y]", "[OPTIONS] -- X...", "[-o | -n] [X]", "-a - ", "[", "]", "X |", "[]", "()", "-z", "Z", "[-a", "-a...|", "X -- -a", "OPTIONS", "x",
}

var argAlphabet = []string{"x", "y", "-a", "-b", "-ab", "-ba", "-n", "5", "-n5", "-n=5", "--num=5", "--num", "-o", "v", "-ov", "-o=v", "--out=v", "--", "-", "", " v", "010", "-abn5", "--along", "--along=false", "-z", "-a=maybe", "-nx"}

var fragments = []string{"-a", "[-a]", "-a...", "[-a...]", "[-b]", "-n", "[-n]", "[-o]", "-o...", "X", "[X]", "X...", "[-ab]", "[OPTIONS]", "--", "(-a | -b)", "[-a | X]", "(-n X)..."}

func runPipeline() {
	baseSpecs := len(specs)
	for _, f := range fragments {
		for _, g := range fragments {
			specs = append(specs, f+" "+g)
		}
	}
	var argvs [][]string
	argvs = append(argvs, nil)
	for _, a := range argAlphabet {
		argvs = append(argvs, []string{a})
	}
	pairAlphabet := []string{"", "--out", "-1", "--2fa", "--rm", "x", "-a", "-b", "-ab", "-n", "5", "-n5", "--num=5", "-o", "v", "-ov", "--out=v", "--", "-", "-aaa", "-z"}
	for _, a := range pairAlphabet {
		for _, b := range pairAlphabet {
			argvs = append(argvs, []string{a, b})
		}
	}
	argvs = append(argvs, []string{"-a", "-b", "x"}, []string{"x", "--", "y"}, []string{"-n", "5", "-n", "6"}, []string{"-o", "a", "-o", "b"}, []string{"--", "x", "--"},
		[]string{"-ab", "-n", "5"}, []string{"-o", "v", "-a"}, []string{"x", "y", "z"}, []string{"-aaa"}, []string{"-b", "-aaa"}, []string{"--out=v", "-n", "5"}, []string{"-", "-a", "x"})
	argvs = append(argvs, []string{"-b", "-aaa", "x"}, []string{"-n", "5", "-aa", "-a"}, []string{"x", "-a", "y"}, []string{"-a", "x", "-b"}, []string{"-n", "5", "x", "-n", "6"},
		[]string{"--out=v", "-b", "-a"}, []string{"-ab", "-o", "v"}, []string{"-o", "--", "x"}, []string{"--", "-a", "--"}, []string{"x", "", "y"}, []string{"-n", "", "x"})
	envs := []map[string]string{{}, {"DS_O": "e1,e2", "DS_N": "7"}, {"DS_O": " ,", "DS_N": "zz", "DS_N2": "8"}, {"DS_N": "3", "DS_O": "d"}}
	var small [][]string
	for _, av := range argvs {
		ok := true
		for _, a := range av {
			switch a {
			case "", "--out", "-1", "--2fa", "--rm", "-z", "-":
				ok = false
			}
		}
		if ok {
			small = append(small, av)
		}
	}
	for si, spec := range specs {
		for ei, env := range envs {
			if ei == 3 && !strings.Contains(spec, "n") && !strings.Contains(spec, "OPTIONS") {
				continue
			}
			list := argvs
			if si >= baseSpecs {
				list = small
			}
			for _, argv := range list {
				header("pipeline spec=%q env=%d argv=%q", spec, ei, argv)
				guard(func() string { return onePipeline(spec, env, argv) })
			}
		}
	}
}

func onePipeline(spec string, env map[string]string, argv []string) string {
	for _, k := range []string{"DS_O", "DS_N", "DS_N2"} {
		os.Unsetenv(k)
	}
	for k, v := range env {
		os.Setenv(k, v)
	}
	app := cli.App("app", "")
	app.ErrorHandling = flag.ContinueOnError
	app.Spec = spec
	var aSet, oSet, xSet bool
	a := app.Bool(cli.BoolOpt{Name: "a along", SetByUser: &aSet})
	b := app.BoolOpt("b", false, "")
	o := app.Strings(cli.StringsOpt{Name: "o out", Value: []string{"d"}, EnvVar: "DS_O", SetByUser: &oSet})
	n := app.Int(cli.IntOpt{Name: "n num", Value: 3, EnvVar: "DS_N DS_N2"})
	x := app.Strings(cli.StringsArg{Name: "X", SetByUser: &xSet})
	y := app.StringArg("Y", "dy", "")
	twofa := app.BoolOpt("2fa", false, "")
	rm := app.BoolOpt("r rm", false, "")
	ran := false
	app.Action = func() { ran = true }
	err := app.Run(append([]string{"app"}, argv...))
	if err != nil {
		// a rejected invocation may have filled some variables before the offending one (map order): not compared
		return fmt.Sprintf("ran=%v err=true", ran)
	}
	return fmt.Sprintf("ran=%v err=false a=%v/%v b=%v o=%q/%v n=%d x=%q/%v y=%q 2fa=%v rm=%v", ran, *a, aSet, *b, *o, oSet, *n, *x, xSet, *y, *twofa, *rm)
}

// ---- family 2: declarations (C18, C16) ---------------------------------------------------------------------------------

func runDeclarations() {
	decl := func(desc string, f func(app *cli.Cli)) {
		header("declare %s", desc)
		guard(func() string {
			app := cli.App("app", "")
			app.ErrorHandling = flag.ContinueOnError
			f(app)
			ran := false
			app.Action = func() { ran = true }
			err := app.Run([]string{"app"})
			return fmt.Sprintf("declared; spec=%q ran=%v err=%v", app.Spec, ran, err != nil)
		})
	}
	for _, names := range [][2]string{{"f force", "f"}, {"f force", "x force"}, {"f", "force f"}, {"a b c", "x y c"}, {"f", "g"}, {"f f", ""}, {"ff", "f"}, {"é enc", "e"}, {"rm", "r m"}} {
		names := names
		decl(fmt.Sprintf("options %q then %q", names[0], names[1]), func(app *cli.Cli) {
			app.BoolOpt(names[0], false, "")
			if names[1] != "" {
				app.StringOpt(names[1], "", "")
			}
		})
	}
	for _, n := range []string{"SRC", "src", "SRC_DIR", "2ND", "_X", "A.B", "SRC-DST", "ARG9", "OPTIONS", "", "SRC DST", "ARg", "HOST:PORT", "[SRC]", "S"} {
		n := n
		decl(fmt.Sprintf("argument %q", n), func(app *cli.Cli) { app.StringArg(n, "", "") })
	}
	decl("argument twice", func(app *cli.Cli) { app.StringArg("SRC", "", ""); app.IntArg("SRC", 0, "") })
	decl("args in order and options", func(app *cli.Cli) {
		app.StringArg("SRC_DIR", "", "")
		app.StringArg("DIR", "", "")
		app.BoolOpt("v", false, "")
		app.Spec = ""
	})
	decl("version then clash", func(app *cli.Cli) { app.Version("v version", "1.0"); app.BoolOpt("v", false, "") })
	decl("clash then version", func(app *cli.Cli) { app.BoolOpt("V version", false, ""); app.Version("v version", "1.0") })
	decl("only version", func(app *cli.Cli) { app.Version("v version", "1.0"); app.StringArg("SRC", "", "") })
	decl("env-only option", func(app *cli.Cli) { app.String(cli.StringOpt{Name: "", EnvVar: "DS_O"}); app.StringArg("DST", "x", "") })
	decl("argument with two valid env vars", func(app *cli.Cli) {
		os.Setenv("DS_N", "7")
		os.Setenv("DS_N2", "8")
		n := app.Int(cli.IntArg{Name: "N", Value: 1, EnvVar: "DS_N DS_N2"})
		s := app.Strings(cli.StringsArg{Name: "S", Value: []string{"d"}, EnvVar: "DS_N DS_N2"})
		app.Spec = "[N] [S...]"
		app.Before = func() { fmt.Printf("  n=%d s=%q\n", *n, *s) }
	})
	decl("two parameters sharing one default slice", func(app *cli.Cli) {
		shared := []string{"x", "y"}
		a := app.StringsOpt("a", shared, "")
		b := app.StringsOpt("b", shared, "")
		app.Spec = "[-a...] [-b...]"
		app.Before = func() { fmt.Printf("  a=%q b=%q shared=%q\n", *a, *b, shared) }
		os.Args = os.Args[:1]
	})
	decl("aliases with blanks and dashes", func(app *cli.Cli) {
		app.Command("start  run", "", cli.ActionCommand(func() { fmt.Println("  start ran") }))
		app.Command("list -l", "", cli.ActionCommand(func() { fmt.Println("  list ran") }))
		app.Command("tabbed\tt", "", cli.ActionCommand(func() { fmt.Println("  tabbed ran") }))
		for _, argv := range [][]string{{"run"}, {""}, {"-l"}, {"t"}, {"list"}} {
			err := app.Run(append([]string{"app"}, argv...))
			fmt.Printf("  %q err=%v\n", argv, err != nil)
		}
	})
	decl("ptr forms", func(app *cli.Cli) {
		var i []int
		var f []float64
		app.IntsPtr(&i, cli.IntsArg{Name: "NUMS", Value: []int{1}, EnvVar: "DS_N", HideValue: true})
		app.Floats64Ptr(&f, cli.Floats64Opt{Name: "r", Value: []float64{0.123456789}, EnvVar: "DS_R"})
	})
}

// ---- family 3: help and usage text (C17, C14, C16) ----------------------------------------------------------------------

func helpApp() *cli.Cli {
	os.Setenv("DS_O", "fromenv")
	app := cli.App("app", "the app")
	app.ErrorHandling = flag.ContinueOnError
	app.LongDesc = "the long description of the app"
	app.Version("V version", "1.2.3 (100% go)")
	app.Bool(cli.BoolOpt{Name: "force f", Desc: "force it", EnvVar: "DS_F DS_G"})
	app.String(cli.StringOpt{Name: "o out", Value: "a.out", Desc: "output\nsecond line", EnvVar: "DS_O"})
	app.String(cli.StringOpt{Name: "secret", Value: "hidden", HideValue: true, Desc: "a secret"})
	app.Strings(cli.StringsOpt{Name: "I", Value: []string{"x", "50%"}, Desc: "includes"})
	app.Ints(cli.IntsOpt{Name: "p", Value: []int{80, 443}})
	app.Floats64(cli.Floats64Opt{Name: "r", Value: []float64{0.123456789, 16777217}})
	app.String(cli.StringOpt{Name: "blank", Value: " ", Desc: "blank default"})
	app.Float64Opt("ratio", 2.5, "a ratio")
	app.BoolOpt("q Q quiet silent", false, "two shorts, two longs")
	app.StringOpt("long-only", "", "no short")
	app.String(cli.StringOpt{Name: "e", Desc: "env with blanks", EnvVar: " DS_E1   DS_E2 "})
	app.String(cli.StringArg{Name: "DST", Desc: "arg with env", EnvVar: " ", Value: "%H:%M"})
	app.IntArg("COUNT", 3, "how many")
	app.StringArg("SRC", "", "the source")
	app.Command("alpha a", "first", func(c *cli.Cmd) {
		c.LongDesc = "alpha long"
		c.BoolOpt("x", false, "an x")
		c.Command("leaf", "a leaf", cli.ActionCommand(func() { fmt.Println("  leaf ran") }))
		c.Command("deep", "", func(d *cli.Cmd) { d.LongDesc = "only long"; d.Action = func() {} })
	})
	app.Command("secret", "hidden one", func(c *cli.Cmd) { c.Hidden = true; c.Action = func() { fmt.Println("  secret ran") } })
	app.Command("beta", "second", func(c *cli.Cmd) {
		c.Spec = "[-v] SRC..."
		c.BoolOpt("v", false, "")
		c.StringsArg("SRC", nil, "")
		c.Action = func() { fmt.Println("  beta ran") }
	})
	return app
}

func runHelp() {
	for _, argv := range [][]string{{"-h"}, {"--help"}, {"alpha", "-h"}, {"a", "--help"}, {"alpha", "deep", "-h"}, {"beta", "-h"}, {"beta", "--", "-h"}, {"-V"}, {"--version"}, {"x", "-V"},
		{"-V", "-h"}, {"beta"}, {"beta", "-x"}, {"nope"}, {"alpha"}, {"alpha", "leaf"}, {"secret"}, {"-h", "--", "x"}, {"3", "s", "-h"}, {"--bogus", "alpha", "leaf"}, {"alpha", "-h", "--"}, {"beta", "x", "-h"}} {
		argv := argv
		header("help/usage argv=%q", argv)
		guard(func() string {
			app := helpApp()
			err := app.Run(append([]string{"app"}, argv...))
			return fmt.Sprintf("err=%v", err)
		})
	}
	header("help twice then hidden command")
	guard(func() string {
		app := helpApp()
		e1 := app.Run([]string{"app", "-h"})
		e2 := app.Run([]string{"app", "-h"})
		e3 := app.Run([]string{"app", "-V"})
		e4 := app.Run([]string{"app", "secret"})
		return fmt.Sprintf("errs=%v,%v,%v,%v", e1, e2, e3, e4)
	})
}

// ---- family 4: routing and interceptors (C04, C05, C07) ------------------------------------------------------------------

func runFlow() {
	for _, fault := range []string{"", "leaf.action!runtime", "sub.before!error", "root.before", "sub.before", "leaf.action", "leaf.after", "sub.after", "root.after", "leaf.action+sub.after"} {
		for _, argv := range [][]string{{"sub", "leaf"}, {"s", "leaf", "x"}, {"sub"}, {"sub", "nope"}, {"-g", "sub", "leaf"}, {"sub", "-q", "leaf"}, {"sub", "leaf", "-h"}, {}, {"other"}} {
			for _, policy := range []flag.ErrorHandling{flag.ContinueOnError, flag.PanicOnError} {
				fault, argv, policy := fault, argv, policy
				header("flow fault=%q policy=%d argv=%q", fault, policy, argv)
				guard(func() string {
					var log []string
					step := func(name string) func() {
						return func() {
							log = append(log, name)
							for _, f := range strings.Split(fault, "+") {
								if f == name {
									panic("boom@" + name)
								}
								if f == name+"!runtime" {
									var m map[string]int
									m["x"] = 1
								}
								if f == name+"!error" {
									panic(fmt.Errorf("error@%s", name))
								}
							}
						}
					}
					app := cli.App("app", "")
					app.ErrorHandling = policy
					app.BoolOpt("g", false, "")
					app.Before, app.After = step("root.before"), step("root.after")
					app.Command("sub s", "", func(c *cli.Cmd) {
						c.BoolOpt("q", false, "")
						c.Before, c.After = step("sub.before"), step("sub.after")
						c.Command("leaf", "", func(l *cli.Cmd) {
							l.Spec = "[X]"
							l.StringArg("X", "", "")
							l.Before, l.Action, l.After = step("leaf.before"), step("leaf.action"), step("leaf.after")
						})
					})
					app.Command("other", "", cli.ActionCommand(step("other.action")))
					var err error
					var raised interface{}
					func() {
						defer func() { raised = recover() }()
						err = app.Run(append([]string{"app"}, argv...))
					}()
					return fmt.Sprintf("log=%v err=%v raised=%v", log, err != nil, raised)
				})
			}
		}
	}
}

// ---- family 5: custom value types and the environment (C19, C06, C12, C13, C15) ------------------------------------------------

func runCustom() {
	for _, argv := range [][]string{{}, {"-l", "debug"}, {"-l"}, {"--level=info"}, {"-ldebug"}, {"-l", "bad"}, {"-m", "a", "-m", "b"}, {"-m", " a"}, {"-m", "bad", "x"}, {"x"}, {"-m", "a", "x", "y"}, {"-l", "-m", "a"}, {"-vvv"}, {"-v", "-v"}, {"-l", "3", "x"}} {
		for _, flagLike := range []bool{false, true} {
			for _, env := range []string{"", "e1, e2", "bad"} {
				argv, flagLike, env := argv, flagLike, env
				header("custom argv=%q flagLike=%v env=%q", argv, flagLike, env)
				guard(func() string {
					os.Unsetenv("DS_M")
					if env != "" {
						os.Setenv("DS_M", env)
					}
					app := cli.App("app", "")
					app.ErrorHandling = flag.ContinueOnError
					app.Spec = "[-l] [-m...] [-v...] [X...]"
					l := &level{asFlag: flagLike, failOn: "bad"}
					m := &multi{level{failOn: "bad"}}
					v := &level{asFlag: true}
					var lSet, mSet bool
					app.Var(cli.VarOpt{Name: "l level", Value: l, SetByUser: &lSet})
					app.Var(cli.VarOpt{Name: "m", Value: m, EnvVar: "DS_M", SetByUser: &mSet})
					app.VarOpt("v", v, "")
					x := app.StringsArg("X", nil, "")
					ran := false
					app.Action = func() { ran = true }
					err := app.Run(append([]string{"app"}, argv...))
					if err != nil {
						return fmt.Sprintf("ran=%v err=true", ran)
					}
					return fmt.Sprintf("ran=%v err=false l=%v/%v m=%v/%v v=%v x=%q", ran, l.calls, lSet, m.calls, mSet, v.calls, *x)
				})
			}
		}
	}
	// typed values against strconv
	toks := []string{"0", "42", "-7", "+3", "010", "0x10", "1_000", " 1", "1 ", "", "abc", "1e3", "1.5", "NaN", "inf", "true", "T", "yes", "0b1", "9223372036854775808"}
	for _, t := range toks {
		t := t
		header("typed token %q", t)
		guard(func() string {
			var keys []string
			res := map[string]string{}
			for _, kind := range []string{"int", "float", "bool", "string", "ints", "floats"} {
				app := cli.App("app", "")
				app.ErrorHandling = flag.ContinueOnError
				app.Spec = "--val"
				var show func() string
				switch kind {
				case "int":
					p := app.IntOpt("val", 1, "")
					show = func() string { return fmt.Sprint(*p) }
				case "float":
					p := app.Float64Opt("val", 1, "")
					show = func() string { return fmt.Sprint(*p) }
				case "bool":
					p := app.BoolOpt("val", false, "")
					show = func() string { return fmt.Sprint(*p) }
				case "string":
					p := app.StringOpt("val", "d", "")
					show = func() string { return fmt.Sprintf("%q", *p) }
				case "ints":
					p := app.IntsOpt("val", []int{1}, "")
					show = func() string { return fmt.Sprint(*p) }
				case "floats":
					p := app.Floats64Opt("val", []float64{1}, "")
					show = func() string { return fmt.Sprint(*p) }
				}
				app.Action = func() {}
				err := app.Run([]string{"app", "--val=" + t})
				r1 := fmt.Sprintf("%v:%s", err != nil, show())
				err = app.Run([]string{"app", "--val", t})
				keys = append(keys, kind)
				res[kind] = r1 + "|" + fmt.Sprintf("%v:%s", err != nil, show())
			}
			sort.Strings(keys)
			var out []string
			for _, k := range keys {
				out = append(out, k+"="+res[k])
			}
			return strings.Join(out, " ")
		})
	}
}

// ---- family 6: exits (C05, C07, C14), each case in a child process ----------------------------------------------------------

var exitCases = []string{"action-exit-3", "before-exit-0", "after-exit-5-over-panic", "two-exits", "usage-error", "help", "version", "sub-usage-error", "action-exit-300"}

func exitCase(name string) {
	app := cli.App("app", "")
	app.Version("V version", "9.9")
	app.Spec = "[-x] [ARG]"
	app.BoolOpt("x", false, "")
	app.StringArg("ARG", "", "")
	argv := []string{"app"}
	say := func(s string) func() { return func() { fmt.Println("  ran " + s) } }
	app.Before, app.Action, app.After = say("before"), say("action"), say("after")
	switch name {
	case "action-exit-3":
		app.Action = func() { fmt.Println("  ran action"); cli.Exit(3) }
	case "action-exit-300":
		app.Action = func() { cli.Exit(300) }
	case "before-exit-0":
		app.Before = func() { fmt.Println("  ran before"); cli.Exit(0) }
	case "after-exit-5-over-panic":
		app.Action = func() { panic("boom") }
		app.After = func() { fmt.Println("  ran after"); cli.Exit(5) }
	case "two-exits":
		app.Action = func() { cli.Exit(4) }
		app.After = func() { cli.Exit(6) }
	case "usage-error":
		argv = append(argv, "--nope")
	case "help":
		argv = append(argv, "-h")
	case "version":
		argv = append(argv, "-V")
	case "sub-usage-error":
		app.Command("sub", "", func(c *cli.Cmd) { c.Spec = "SRC"; c.StringArg("SRC", "", ""); c.Action = say("sub") })
		argv = append(argv, "sub")
	}
	err := app.Run(argv)
	fmt.Printf("  returned err=%v\n", err)
}

// ---- family 7: nested commands, odd tokens, the same application run twice (C04, C07, C14, C16, C17, C20 ...) -------------------

func runNested() {
	argvs := [][]string{{}, {"-h"}, {"remote"}, {"remote", "-h"}, {"remote", "add", "x"}, {"remote", "a", "x", "--", "-y"}, {"r", "rm", "x"}, {"r", "rm"},
		{"-v", "list", "1", "2"}, {"list", "-p", "08", "1"}, {"list", "-p", "0x1F", "1"}, {"list", "1", "x", "3"}, {"list", "-p", "x", "-p", "3", "7"},
		{"ls", "1e3"}, {"list", "3000000000"}, {"list", "9223372036854775808"}, {"add", "a,b"}, {"add", ""}, {"add", "a", "--", "--"}, {"add", "--", "a", "--"},
		{"remote", "add", "-h"}, {"remote", "-h", "add"}, {"-V"}, {"--version"}, {"version"}, {"V"}, {"list", "--version"}, {"Status"}, {"status"},
		{"-v", "-v", "list", "1"}, {"--ecole", "x", "list", "1"}, {"-é", "x", "list", "1"}, {"list", "--prio=5", "1"}, {"list", "-p=5", "1"}, {"list", "-p5", "1"},
		{"list", "1", "-p", "5"}, {"bogus"}, {"-x"}, {"remote", "bogus"}, {"list", "50%"}, {"list", "-p", "50%d", "1"}, {"add", "  padded "}, {"add", "-"},
		{"list", "--", "-1"}, {"list", "-1"}, {"-v", "remote", "add", "x", "y"}, {"remote", "add"}, {"list"}, {"list", "-p"}, {"list", "-p", "-1", "1"},
		{"add", "x", "-f"}, {"add", "-f", "x"}, {"add", "-f=false", "-f", "x"}, {"add", "--force=false", "--force", "x"}, {"add", "-fq", "x"}, {"add", "-qf", "x"},
		{"add", "-q", "tRuE", "x"}, {"add", "--force=tRuE", "x"}, {"add", "-o", "-", "x"}, {"add", "--out", "-", "x"}, {"add", "--out", "-x", "x"}, {"add", "-o=", "x"},
		{"add", "-o==x", "y"}, {"add", "-ofile", "-q", "x"}, {"add", "-q", "-ofile", "x"}, {"add", "--out=v", "--force", "x"}, {"list", "\xe9"}, {"add", "caf\xe9"},
		{"-v", "add", "x", "add"}, {"add", "list"}, {"remote", "remote"}, {"remote", "add", "add"}, {"list", "1", "--"}, {"list", "--", "1", "--"},
		{"-t", "a", "-t", "b", "list", "1"}, {"--tag=a", "-tb"}, {"-t", "a", "x"},
		{"add", "--out==x", "y"}, {"add", "-I", "first", "-o", "out", "-I", "second", "-I", "third", "x"}, {"add", "-I", "a", "-Ib", "--inc=c", "x"},
		{"--noTrunc"}, {"--noTrunc", "x"}, {"-v", "--noTrunc", "list", "1"}, {"add", "-qI", "a", "x"}, {"add", "-o", "v", "-q", "x", "y"}, {"add", "-q", "-o", "v", "x", "y"}}
	for _, argv := range argvs {
		for _, withRootArg := range []bool{false, true} {
			argv, withRootArg := argv, withRootArg
			header("nested rootarg=%v argv=%q (run twice on the same application)", withRootArg, argv)
			guard(func() string {
				var log []string
				step := func(name string) func() { return func() { log = append(log, name) } }
				app := cli.App("app tool", "the app")
				app.ErrorHandling = flag.ContinueOnError
				app.Version("version V", "1.2.3")
				v := app.BoolOpt("v verbose", false, "be verbose")
				ecole := app.StringOpt("é ecole", "", "non-ASCII short name")
				tags := app.StringsOpt("t tag", nil, "tags")
				noTrunc := app.BoolOpt("noTrunc", false, "camel-case long name")
				var dir *string
				if withRootArg {
					dir = app.StringArg("DIR", "", "a directory")
					app.Spec = "[-v] [--ecole] [-t...] [--noTrunc] [DIR]"
					app.Action = step("root.action")
				}
				app.Before, app.After = step("root.before"), step("root.after")
				var ids *[]int
				var prio *int
				var items *[]string
				var force, quiet *bool
				var out *string
				var incs *[]string
				app.Command("remote r", "manage remotes", func(c *cli.Cmd) {
					c.LongDesc = "A longer description of remote"
					c.Before, c.After = step("remote.before"), step("remote.after")
					c.Command("add a", "add one", func(a *cli.Cmd) {
						a.StringsArg("NAMES", nil, "names")
						a.Spec = "NAMES..."
						a.Action = step("remote.add.action")
					})
					c.Command("rm", "remove one", func(a *cli.Cmd) {
						a.Hidden = true
						a.StringArg("NAME", "dflt", "name")
						a.Action = step("remote.rm.action")
					})
				})
				app.Command("list ls", "list things", func(c *cli.Cmd) {
					prio = c.IntOpt("p prio", 1, "priority")
					ids = c.IntsArg("N", nil, "numbers")
					c.Spec = "[-p] N..."
					c.Before, c.Action, c.After = step("list.before"), step("list.action"), step("list.after")
				})
				app.Command("add", "add items", func(c *cli.Cmd) {
					force = c.BoolOpt("f force", false, "force")
					quiet = c.BoolOpt("q", false, "quiet")
					out = c.StringOpt("o out", "", "output")
					incs = c.StringsOpt("I inc", nil, "includes")
					items = c.StringsArg("ITEM", nil, "items")
					c.Action = step("add.action")
				})
				app.Command("Status", "upper-case name", cli.ActionCommand(step("status.action")))
				res := ""
				for round := 1; round <= 2; round++ {
					log = nil
					var err error
					var raised interface{}
					func() {
						defer func() { raised = recover() }()
						av := []string{"app"}
						for _, a := range argv {
							av = append(av, strings.Replace(a, "\\xe9", "\xe9", -1))
						}
						err = app.Run(av)
					}()
					deref := func() string {
						r := fmt.Sprintf("v=%v ecole=%q tags=%q noTrunc=%v", *v, *ecole, *tags, *noTrunc)
						if dir != nil {
							r += fmt.Sprintf(" dir=%q", *dir)
						}
						if ids != nil {
							r += fmt.Sprintf(" ids=%v prio=%d", *ids, *prio)
						}
						if items != nil {
							r += fmt.Sprintf(" items=%q force=%v quiet=%v out=%q incs=%q", *items, *force, *quiet, *out, *incs)
						}
						return r
					}
					vals := ""
					if err == nil && raised == nil {
						vals = deref()
					}
					res += fmt.Sprintf("[run %d: log=%v err=%v raised=%v %s] ", round, log, err != nil, raised != nil, vals)
				}
				return res
			})
		}
	}
}

func runExits() {
	for _, c := range exitCases {
		header("exit case %s", c)
		cmd := exec.Command(os.Args[0], "exitcase", c)
		out, err := cmd.CombinedOutput()
		fmt.Print(string(out))
		code := 0
		if ee, ok := err.(*exec.ExitError); ok {
			code = ee.ExitCode()
		}
		fmt.Printf("  => exit status %d\n", code)
	}
}

func main() {
	if len(os.Args) > 2 && os.Args[1] == "exitcase" {
		exitCase(os.Args[2])
		return
	}
	want := "all"
	if len(os.Args) > 1 {
		want = os.Args[1]
	}
	run := func(name string, f func()) {
		if want == "all" || want == name {
			f()
		}
	}
	run("declarations", runDeclarations)
	run("help", runHelp)
	run("flow", runFlow)
	run("custom", runCustom)
	run("exits", runExits)
	run("nested", runNested)
	run("pipeline", runPipeline)
	fmt.Printf("#END %d scenarios\n", scenario)
}
