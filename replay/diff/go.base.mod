module diffsearch

go 1.21

require github.com/jawher/mow.cli v0.0.0

replace github.com/jawher/mow.cli => /verif/baseline/mowcli
