package cli

// Witnesses of the defects D1-D7 (DESIGN.md section 6), replayed against the real code through the public API.
// Injected with `go test -overlay` (see /verif/replay/run_witnesses.sh); never written into /repo.

import (
	"flag"
	"os"
	"testing"
	"time"
)

func runApp(t *testing.T, build func(app *Cli), argv []string) (ran bool, err error, panicked interface{}) {
	t.Helper()
	app := App("app", "")
	app.ErrorHandling = flag.ContinueOnError
	build(app)
	app.Action = func() { ran = true }
	done := make(chan struct{})
	go func() {
		defer close(done)
		defer func() { panicked = recover() }()
		err = app.Run(append([]string{"app"}, argv...))
	}()
	select {
	case <-done:
	case <-time.After(5 * time.Second):
		t.Fatalf("timeout: compilation or parsing does not terminate")
	}
	return
}

// D1: a dangling '-' in a spec belongs to no token and must be rejected (C08)
func TestD1DanglingDash(t *testing.T) {
	_, _, p := runApp(t, func(app *Cli) { app.Spec = "- X"; app.StringArg("X", "", "") }, []string{"a"})
	if p == nil {
		t.Fatalf("spec \"- X\" compiled although '-' belongs to no token")
	}
}

// D2: nested repetition of an optional group must compile (C01, C03)
func TestD2NestedRepetition(t *testing.T) {
	ran, err, p := runApp(t, func(app *Cli) { app.Spec = "[[X]...]..."; app.StringsArg("X", nil, "") }, []string{"a", "b"})
	if !ran || err != nil || p != nil {
		t.Fatalf("[[X]...]... with a b: ran=%v err=%v panic=%v", ran, err, p)
	}
}

// D3: a trailing `--` after the last positional is transparent (C01, C09)
func TestD3TrailingDoubleDash(t *testing.T) {
	ran, err, _ := runApp(t, func(app *Cli) { app.Spec = "X"; app.StringArg("X", "", "") }, []string{"x", "--"})
	if !ran || err != nil {
		t.Fatalf("spec X, argv `x --`: ran=%v err=%v", ran, err)
	}
	ran, err, _ = runApp(t, func(app *Cli) { app.Spec = "[X]"; app.StringArg("X", "", "") }, []string{"--"})
	if !ran || err != nil {
		t.Fatalf("spec [X], argv `--`: ran=%v err=%v", ran, err)
	}
}

// D5: an env-backed option written twice on the command line is not rejected (C12)
func TestD5EnvBackedRepeated(t *testing.T) {
	os.Setenv("VERIF_D5_E", "z")
	defer os.Unsetenv("VERIF_D5_E")
	var got *[]string
	ran, err, _ := runApp(t, func(app *Cli) {
		got = app.Strings(StringsOpt{Name: "e", EnvVar: "VERIF_D5_E"})
	}, []string{"-e", "a", "-e", "b"})
	if !ran || err != nil || len(*got) != 2 {
		t.Fatalf("[OPTIONS] with env-backed -e, argv `-e a -e b`: ran=%v err=%v got=%v", ran, err, *got)
	}
}

// D7: a lone '-' is a positional and stops the option scan (C01)
func TestD7LoneDashStopsScan(t *testing.T) {
	ran, _, _ := runApp(t, func(app *Cli) {
		app.Spec = "-f X"
		app.BoolOpt("f", false, "")
		app.StringArg("X", "", "")
	}, []string{"-", "-f"})
	if ran {
		t.Fatalf("spec `-f X` accepted `- -f` (positional before the option)")
	}
}
