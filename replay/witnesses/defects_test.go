package cli

// Witnesses of the defects D1-D7 (DESIGN.md section 6), replayed against the real code through the public API.
// Injected with `go test -overlay` (see /verif/replay/run_witnesses.sh); never written into /repo.

import (
	"flag"
	"os"
	"runtime/debug"
	"testing"
	"time"
)

func runApp(t *testing.T, build func(app *Cli), argv []string) (ran bool, err error, panicked interface{}) {
	t.Helper()
	app := App("app", "")
	app.ErrorHandling = flag.ContinueOnError
	build(app)
	app.Action = func() { ran = true }
	done := make(chan struct{})
	go func() {
		defer close(done)
		defer func() { panicked = recover() }()
		err = app.Run(append([]string{"app"}, argv...))
	}()
	select {
	case <-done:
	case <-time.After(5 * time.Second):
		t.Fatalf("timeout: compilation or parsing does not terminate")
	}
	return
}

// D1: a dangling '-' in a spec belongs to no token and must be rejected (C08)
func TestD1DanglingDash(t *testing.T) {
	_, _, p := runApp(t, func(app *Cli) { app.Spec = "- X"; app.StringArg("X", "", "") }, []string{"a"})
	if p == nil {
		t.Fatalf("spec \"- X\" compiled although '-' belongs to no token")
	}
}

// D2: nested repetition of an optional group must compile (C01, C03)
func TestD2NestedRepetition(t *testing.T) {
	ran, err, p := runApp(t, func(app *Cli) { app.Spec = "[[X]...]..."; app.StringsArg("X", nil, "") }, []string{"a", "b"})
	if !ran || err != nil || p != nil {
		t.Fatalf("[[X]...]... with a b: ran=%v err=%v panic=%v", ran, err, p)
	}
}

// D3: a trailing `--` after the last positional is transparent (C01, C09)
func TestD3TrailingDoubleDash(t *testing.T) {
	ran, err, _ := runApp(t, func(app *Cli) { app.Spec = "X"; app.StringArg("X", "", "") }, []string{"x", "--"})
	if !ran || err != nil {
		t.Fatalf("spec X, argv `x --`: ran=%v err=%v", ran, err)
	}
	ran, err, _ = runApp(t, func(app *Cli) { app.Spec = "[X]"; app.StringArg("X", "", "") }, []string{"--"})
	if !ran || err != nil {
		t.Fatalf("spec [X], argv `--`: ran=%v err=%v", ran, err)
	}
}

// D5: an env-backed option written twice on the command line is not rejected (C12)
func TestD5EnvBackedRepeated(t *testing.T) {
	os.Setenv("VERIF_D5_E", "z")
	defer os.Unsetenv("VERIF_D5_E")
	var got *[]string
	ran, err, _ := runApp(t, func(app *Cli) {
		got = app.Strings(StringsOpt{Name: "e", EnvVar: "VERIF_D5_E"})
	}, []string{"-e", "a", "-e", "b"})
	if !ran || err != nil || len(*got) != 2 {
		t.Fatalf("[OPTIONS] with env-backed -e, argv `-e a -e b`: ran=%v err=%v got=%v", ran, err, *got)
	}
}

// D7: a lone '-' is a positional and stops the option scan (C01)
func TestD7LoneDashStopsScan(t *testing.T) {
	ran, _, _ := runApp(t, func(app *Cli) {
		app.Spec = "-f X"
		app.BoolOpt("f", false, "")
		app.StringArg("X", "", "")
	}, []string{"-", "-f"})
	if ran {
		t.Fatalf("spec `-f X` accepted `- -f` (positional before the option)")
	}
}

// D6 (open, C06): an environment list with an invalid element wipes the declared default of a multi-valued option
func TestD6InvalidEnvListWipesDefault(t *testing.T) {
	os.Setenv("VERIF_D6_IV", "1,x")
	defer os.Unsetenv("VERIF_D6_IV")
	var got *[]int
	ran, err, _ := runApp(t, func(app *Cli) {
		got = app.Ints(IntsOpt{Name: "i", Value: []int{7, 8}, EnvVar: "VERIF_D6_IV"})
	}, []string{})
	if !ran || err != nil {
		t.Fatalf("ran=%v err=%v", ran, err)
	}
	if len(*got) != 2 || (*got)[0] != 7 || (*got)[1] != 8 {
		t.Fatalf("IntsOpt{Value:[7 8]} with $IV=1,x: got %v, want the default [7 8]", *got)
	}
}

func TestD6InvalidEnvListWipesDefaultFloats(t *testing.T) {
	os.Setenv("VERIF_D6_FV", "1.5,zz")
	defer os.Unsetenv("VERIF_D6_FV")
	var got *[]float64
	ran, err, _ := runApp(t, func(app *Cli) {
		got = app.Floats64(Floats64Opt{Name: "f", Value: []float64{2.5}, EnvVar: "VERIF_D6_FV"})
	}, []string{})
	if !ran || err != nil {
		t.Fatalf("ran=%v err=%v", ran, err)
	}
	if len(*got) != 1 || (*got)[0] != 2.5 {
		t.Fatalf("Floats64Opt{Value:[2.5]} with $FV=1.5,zz: got %v, want the default [2.5]", *got)
	}
}

// D4 (open, C03): unbounded recursion in fsm.apply on a cycle of non-consuming transitions.
// The stack is capped so that the divergence is a quick fatal error of the test binary (the test then counts as failed).
func TestD4EnvBackedRepetitionDiverges(t *testing.T) {
	debug.SetMaxStack(32 << 20)
	os.Setenv("VERIF_D4_E", "z")
	defer os.Unsetenv("VERIF_D4_E")
	runApp(t, func(app *Cli) {
		app.Spec = "[-e...] X"
		app.Strings(StringsOpt{Name: "e", EnvVar: "VERIF_D4_E"})
		app.StringArg("X", "", "")
	}, []string{"x"})
}

// D4, further shapes of the same defect (reported by independent readers of the code), with the outcome C01/C12 demand
func TestD4MoreShapes(t *testing.T) {
	debug.SetMaxStack(32 << 20)
	os.Setenv("VERIF_D4_E", "z")
	defer os.Unsetenv("VERIF_D4_E")
	for _, c := range []struct {
		spec string
		argv []string
		ok   bool
	}{
		{"-e... X", []string{"x"}, true},
		{"[-e]... X", []string{"x"}, true},
		{"[-e...]", nil, true},
		{"[-e...]", []string{"-e", "a", "-e", "b"}, true},
		{"-e... X", []string{"-e", "a", "x"}, true},
		{"-e... X", nil, false},
		{"[ -- ]... X", []string{"x"}, true},
		{"[ -- ]... X", []string{"--", "x"}, true},
		{"([-e] | X)...", []string{"x", "x"}, true},
	} {
		ran, err, p := runApp(t, func(app *Cli) {
			app.Spec = c.spec
			app.Strings(StringsOpt{Name: "e", EnvVar: "VERIF_D4_E"})
			app.Strings(StringsArg{Name: "X"})
		}, c.argv)
		if p != nil {
			t.Errorf("spec %q argv %q: panic %v", c.spec, c.argv, p)
		} else if ran != c.ok || (err == nil) != c.ok {
			t.Errorf("spec %q argv %q: ran=%v err=%v, want accepted=%v", c.spec, c.argv, ran, err, c.ok)
		}
	}
}

func TestD4OptsEndRepetitionDiverges(t *testing.T) {
	debug.SetMaxStack(32 << 20)
	runApp(t, func(app *Cli) {
		app.Spec = "[-- ]..."
	}, []string{"x"})
}

// D8: a tab after the end-of-options marker of a spec is a blank like any other (C08)
func TestD8DoubleDashTab(t *testing.T) {
	for _, spec := range []string{"-- X", "--\tX", "[-f]\t--\tX"} {
		ran, err, p := runApp(t, func(app *Cli) { app.Spec = spec; app.BoolOpt("f", false, ""); app.StringArg("X", "", "") }, []string{"--", "-f"})
		if p != nil || err != nil || !ran {
			t.Errorf("spec %q: panic=%v err=%v ran=%v (a tab is a blank everywhere else in the spec grammar)", spec, p, err, ran)
		}
	}
}
