package cli

import (
	"flag"
	"fmt"
	"strings"

	"github.com/jawher/mow.cli/internal/container"
	"github.com/jawher/mow.cli/internal/values"
)

// BoolOpt describes a boolean option
type BoolOpt struct {
	// A space separated list of the option names *WITHOUT* the dashes, e.g. `f force` and *NOT* `-f --force`.
	// The one letter names will then be called with a single dash (short option), the others with two (long options).
	Name string
	// The option description as will be shown in help messages
	Desc string
	// A space separated list of environment variables names to be used to initialize this option
	EnvVar string
	// The option's initial value
	Value bool
	// A boolean to display or not the current value of the option in the help message
	HideValue bool
	// Set to true if this option was set by the user (as opposed to being set from env or not set at all)
	SetByUser *bool
}

func (o BoolOpt) value(into *bool) (flag.Value, *bool) {
	if into == nil {
		into = new(bool)
	}
	return values.NewBool(into, o.Value), into
}

// StringOpt describes a string option
type StringOpt struct {
	// A space separated list of the option names *WITHOUT* the dashes, e.g. `f force` and *NOT* `-f --force`.
	// The one letter names will then be called with a single dash (short option), the others with two (long options).
	Name string
	// The option description as will be shown in help messages
	Desc string
	// A space separated list of environment variables names to be used to initialize this option
	EnvVar string
	// The option's initial value
	Value string
	// A boolean to display or not the current value of the option in the help message
	HideValue bool
	// Set to true if this option was set by the user (as opposed to being set from env or not set at all)
	SetByUser *bool
}

func (o StringOpt) value(into *string) (flag.Value, *string) {
	if into == nil {
		into = new(string)
	}
	return values.NewString(into, o.Value), into
}

// IntOpt describes an int option
type IntOpt struct {
	// A space separated list of the option names *WITHOUT* the dashes, e.g. `f force` and *NOT* `-f --force`.
	// The one letter names will then be called with a single dash (short option), the others with two (long options).
	Name string
	// The option description as will be shown in help messages
	Desc string
	// A space separated list of environment variables names to be used to initialize this option
	EnvVar string
	// The option's initial value
	Value int
	// A boolean to display or not the current value of the option in the help message
	HideValue bool
	// Set to true if this option was set by the user (as opposed to being set from env or not set at all)
	SetByUser *bool
}

func (o IntOpt) value(into *int) (flag.Value, *int) {
	if into == nil {
		into = new(int)
	}
	return values.NewInt(into, o.Value), into
}

// Float64Opt describes an float64 option
type Float64Opt struct {
	// A space separated list of the option names *WITHOUT* the dashes, e.g. `f force` and *NOT* `-f --force`.
	// The one letter names will then be called with a single dash (short option), the others with two (long options).
	Name string
	// The option description as will be shown in help messages
	Desc string
	// A space separated list of environment variables names to be used to initialize this option
	EnvVar string
	// The option's initial value
	Value float64
	// A boolean to display or not the current value of the option in the help message
	HideValue bool
	// Set to true if this option was set by the user (as opposed to being set from env or not set at all)
	SetByUser *bool
}

func (o Float64Opt) value(into *float64) (flag.Value, *float64) {
	if into == nil {
		into = new(float64)
	}
	return values.NewFloat64(into, o.Value), into
}

// StringsOpt describes a string slice option
type StringsOpt struct {
	// A space separated list of the option names *WITHOUT* the dashes, e.g. `f force` and *NOT* `-f --force`.
	// The one letter names will then be called with a single dash (short option), the others with two (long options).
	Name string
	// The option description as will be shown in help messages
	Desc string
	// A space separated list of environment variables names to be used to initialize this option.
	// The env variable should contain a comma separated list of values
	EnvVar string
	// The option's initial value
	Value []string
	// A boolean to display or not the current value of the option in the help message
	HideValue bool
	// Set to true if this option was set by the user (as opposed to being set from env or not set at all)
	SetByUser *bool
}

func (o StringsOpt) value(into *[]string) (flag.Value, *[]string) {
	if into == nil {
		into = new([]string)
	}
	return values.NewStrings(into, o.Value), into
}

// IntsOpt describes an int slice option
type IntsOpt struct {
	// A space separated list of the option names *WITHOUT* the dashes, e.g. `f force` and *NOT* `-f --force`.
	// The one letter names will then be called with a single dash (short option), the others with two (long options).
	Name string
	// The option description as will be shown in help messages
	Desc string
	// A space separated list of environment variables names to be used to initialize this option.
	// The env variable should contain a comma separated list of values
	EnvVar string
	// The option's initial value
	Value []int
	// A boolean to display or not the current value of the option in the help message
	HideValue bool
	// Set to true if this option was set by the user (as opposed to being set from env or not set at all)
	SetByUser *bool
}

func (o IntsOpt) value(into *[]int) (flag.Value, *[]int) {
	if into == nil {
		into = new([]int)
	}
	return values.NewInts(into, o.Value), into

}

// Floats64Opt describes an int slice option
type Floats64Opt struct {
	// A space separated list of the option names *WITHOUT* the dashes, e.g. `f force` and *NOT* `-f --force`.
	// The one letter names will then be called with a single dash (short option), the others with two (long options).
	Name string
	// The option description as will be shown in help messages
	Desc string
	// A space separated list of environment variables names to be used to initialize this option.
	// The env variable should contain a comma separated list of values
	EnvVar string
	// The option's initial value
	Value []float64
	// A boolean to display or not the current value of the option in the help message
	HideValue bool
	// Set to true if this option was set by the user (as opposed to being set from env or not set at all)
	SetByUser *bool
}

func (o Floats64Opt) value(into *[]float64) (flag.Value, *[]float64) {
	if into == nil {
		into = new([]float64)
	}
	return values.NewFloats64(into, o.Value), into

}

// VarOpt describes an option where the type and format of the value is controlled by the developer
type VarOpt struct {
	// A space separated list of the option names *WITHOUT* the dashes, e.g. `f force` and *NOT* `-f --force`.
	// The one letter names will then be called with a single dash (short option), the others with two (long options).
	Name string
	// The option description as will be shown in help messages
	Desc string
	// A space separated list of environment variables names to be used to initialize this option
	EnvVar string
	// A value implementing the flag.Value type (will hold the final value)
	Value flag.Value
	// A boolean to display or not the current value of the option in the help message
	HideValue bool
	// Set to true if this option was set by the user (as opposed to being set from env or not set at all)
	SetByUser *bool
}

func (o VarOpt) value() flag.Value {
	return o.Value
}

/*
BoolOpt defines a boolean option on the command c named `name`, with an initial value of `value` and a description of `desc` which will be used in help messages.

The name is a space separated list of the option names *WITHOUT* the dashes, e.g. `f force` and *NOT* `-f --force`.
The one letter names will then be called with a single dash (short option), the others with two (long options).


The result should be stored in a variable (a pointer to a bool) which will be populated when the app is run and the call arguments get parsed
*/
func (c *Cmd) BoolOpt(name string, value bool, desc string) *bool {
	return c.Bool(BoolOpt{
		Name:  name,
		Value: value,
		Desc:  desc,
	})
}

/*
BoolOptPtr defines a bool option on the command c named `name`, with an initial value of `value` and a description of `desc` which will be used in help messages.

The name is a space separated list of the option names *WITHOUT* the dashes, e.g. `f force` and *NOT* `-f --force`.
The one letter names will then be called with a single dash (short option), the others with two (long options).


The into parameter points to a variable (a pointer to a int slice) which will be populated when the app is run and the call arguments get parsed
*/
func (c *Cmd) BoolOptPtr(into *bool, name string, value bool, desc string) {
	c.BoolPtr(into, BoolOpt{
		Name:  name,
		Value: value,
		Desc:  desc,
	})
}

/*
StringOpt defines a string option on the command c named `name`, with an initial value of `value` and a description of `desc` which will be used in help messages.

The name is a space separated list of the option names *WITHOUT* the dashes, e.g. `f force` and *NOT* `-f --force`.
The one letter names will then be called with a single dash (short option), the others with two (long options).


The result should be stored in a variable (a pointer to a string) which will be populated when the app is run and the call arguments get parsed
*/
func (c *Cmd) StringOpt(name string, value string, desc string) *string {
	return c.String(StringOpt{
		Name:  name,
		Value: value,
		Desc:  desc,
	})
}

/*
StringOptPtr defines a string option on the command c named `name`, with an initial value of `value` and a description of `desc` which will be used in help messages.

The name is a space separated list of the option names *WITHOUT* the dashes, e.g. `f force` and *NOT* `-f --force`.
The one letter names will then be called with a single dash (short option), the others with two (long options).


The into parameter points to a variable (a pointer to a int slice) which will be populated when the app is run and the call arguments get parsed
*/
func (c *Cmd) StringOptPtr(into *string, name string, value string, desc string) {
	c.StringPtr(into, StringOpt{
		Name:  name,
		Value: value,
		Desc:  desc,
	})
}

/*
IntOpt defines an int option on the command c named `name`, with an initial value of `value` and a description of `desc` which will be used in help messages.

The name is a space separated list of the option names *WITHOUT* the dashes, e.g. `f force` and *NOT* `-f --force`.
The one letter names will then be called with a single dash (short option), the others with two (long options).


The result should be stored in a variable (a pointer to an int) which will be populated when the app is run and the call arguments get parsed
*/
func (c *Cmd) IntOpt(name string, value int, desc string) *int {
	return c.Int(IntOpt{
		Name:  name,
		Value: value,
		Desc:  desc,
	})
}

/*
IntOptPtr defines a int option on the command c named `name`, with an initial value of `value` and a description of `desc` which will be used in help messages.

The name is a space separated list of the option names *WITHOUT* the dashes, e.g. `f force` and *NOT* `-f --force`.
The one letter names will then be called with a single dash (short option), the others with two (long options).


The into parameter points to a variable (a pointer to an int) which will be populated when the app is run and the call arguments get parsed
*/
func (c *Cmd) IntOptPtr(into *int, name string, value int, desc string) {
	c.IntPtr(into, IntOpt{
		Name:  name,
		Value: value,
		Desc:  desc,
	})
}

/*
Float64Opt defines an float64 option on the command c named `name`, with an initial value of `value` and a description of `desc` which will be used in help messages.

The name is a space separated list of the option names *WITHOUT* the dashes, e.g. `f force` and *NOT* `-f --force`.
The one letter names will then be called with a single dash (short option), the others with two (long options).


The result should be stored in a variable (a pointer to an float64) which will be populated when the app is run and the call arguments get parsed
*/
func (c *Cmd) Float64Opt(name string, value float64, desc string) *float64 {
	return c.Float64(Float64Opt{
		Name:  name,
		Value: value,
		Desc:  desc,
	})
}

/*
Float64OptPtr defines a float64 option on the command c named `name`, with an initial value of `value` and a description of `desc` which will be used in help messages.

The name is a space separated list of the option names *WITHOUT* the dashes, e.g. `f force` and *NOT* `-f --force`.
The one letter names will then be called with a single dash (short option), the others with two (long options).


The into parameter points to a variable (a pointer to a float64) which will be populated when the app is run and the call arguments get parsed
*/
func (c *Cmd) Float64OptPtr(into *float64, name string, value float64, desc string) {
	c.Float64Ptr(into, Float64Opt{
		Name:  name,
		Value: value,
		Desc:  desc,
	})
}

/*
StringsOpt defines a string slice option on the command c named `name`, with an initial value of `value` and a description of `desc` which will be used in help messages.

The name is a space separated list of the option names *WITHOUT* the dashes, e.g. `f force` and *NOT* `-f --force`.
The one letter names will then be called with a single dash (short option), the others with two (long options).


The result should be stored in a variable (a pointer to a string slice) which will be populated when the app is run and the call arguments get parsed
*/
func (c *Cmd) StringsOpt(name string, value []string, desc string) *[]string {
	return c.Strings(StringsOpt{
		Name:  name,
		Value: value,
		Desc:  desc,
	})
}

/*
StringsOptPtr defines a string slice option on the command c named `name`, with an initial value of `value` and a description of `desc` which will be used in help messages.

The name is a space separated list of the option names *WITHOUT* the dashes, e.g. `f force` and *NOT* `-f --force`.
The one letter names will then be called with a single dash (short option), the others with two (long options).


The into parameter points to a variable (a pointer to a int slice) which will be populated when the app is run and the call arguments get parsed
*/
func (c *Cmd) StringsOptPtr(into *[]string, name string, value []string, desc string) {
	c.StringsPtr(into, StringsOpt{
		Name:  name,
		Value: value,
		Desc:  desc,
	})
}

/*
IntsOpt defines an int slice option on the command c named `name`, with an initial value of `value` and a description of `desc` which will be used in help messages.

The name is a space separated list of the option names *WITHOUT* the dashes, e.g. `f force` and *NOT* `-f --force`.
The one letter names will then be called with a single dash (short option), the others with two (long options).


The result should be stored in a variable (a pointer to an int slice) which will be populated when the app is run and the call arguments get parsed
*/
func (c *Cmd) IntsOpt(name string, value []int, desc string) *[]int {
	return c.Ints(IntsOpt{
		Name:  name,
		Value: value,
		Desc:  desc,
	})
}

/*
IntsOptPtr defines a int slice option on the command c named `name`, with an initial value of `value` and a description of `desc` which will be used in help messages.

The name is a space separated list of the option names *WITHOUT* the dashes, e.g. `f force` and *NOT* `-f --force`.
The one letter names will then be called with a single dash (short option), the others with two (long options).


The into parameter points to a variable (a pointer to a int slice) which will be populated when the app is run and the call arguments get parsed
*/
func (c *Cmd) IntsOptPtr(into *[]int, name string, value []int, desc string) {
	c.IntsPtr(into, IntsOpt{
		Name:  name,
		Value: value,
		Desc:  desc,
	})
}

/*
Floats64Opt defines an float64 slice option on the command c named `name`, with an initial value of `value` and a description of `desc` which will be used in help messages.

The name is a space separated list of the option names *WITHOUT* the dashes, e.g. `f force` and *NOT* `-f --force`.
The one letter names will then be called with a single dash (short option), the others with two (long options).


The result should be stored in a variable (a pointer to an float64 slice) which will be populated when the app is run and the call arguments get parsed
*/
func (c *Cmd) Floats64Opt(name string, value []float64, desc string) *[]float64 {
	return c.Floats64(Floats64Opt{
		Name:  name,
		Value: value,
		Desc:  desc,
	})
}

/*
Floats64OptPtr defines a int slice option on the command c named `name`, with an initial value of `value` and a description of `desc` which will be used in help messages.

The name is a space separated list of the option names *WITHOUT* the dashes, e.g. `f force` and *NOT* `-f --force`.
The one letter names will then be called with a single dash (short option), the others with two (long options).


The into parameter points to a variable (a pointer to a int slice) which will be populated when the app is run and the call arguments get parsed
*/
func (c *Cmd) Floats64OptPtr(into *[]float64, name string, value []float64, desc string) {
	c.Floats64Ptr(into, Floats64Opt{
		Name:  name,
		Value: value,
		Desc:  desc,
	})
}

/*
VarOpt defines an option where the type and format is controlled by the developer.

The name is a space separated list of the option names *WITHOUT* the dashes, e.g. `f force` and *NOT* `-f --force`.
The one letter names will then be called with a single dash (short option), the others with two (long options).


The result will be stored in the value parameter (a value implementing the flag.Value interface) which will be populated when the app is run and the call arguments get parsed
*/
func (c *Cmd) VarOpt(name string, value flag.Value, desc string) {
	c.mkOpt(container.Container{Name: name, Desc: desc, Value: value})
}

func mkOptStrs(optName string) []string {
	res := strings.Fields(optName)
	for i, name := range res {
		prefix := "-"
		if len(name) > 1 {
			prefix = "--"
		}
		res[i] = prefix + name
	}
	return res
}

func (c *Cmd) mkOpt(opt container.Container) {
	opt.DefaultValue = values.DefaultValue(opt.Value)
	opt.ValueSetFromEnv = values.SetFromEnv(opt.Value, opt.EnvVar)

	opt.Names = mkOptStrs(opt.Name)

	c.options = append(c.options, &opt)
	for _, name := range opt.Names {
		if _, found := c.optionsIdx[name]; found {
			panic(fmt.Sprintf("duplicate option name %q", name))
		}
		c.optionsIdx[name] = &opt
	}
}
