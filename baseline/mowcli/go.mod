module github.com/jawher/mow.cli

require (
	github.com/davecgh/go-spew v1.1.1 // indirect
	github.com/stretchr/testify v1.4.0
	gopkg.in/yaml.v2 v2.2.5 // indirect
)

go 1.13
