package cli

import (
	"errors"
)

var (
	errHelpRequested    = errors.New("help requested")
	errVersionRequested = errors.New("version requested")
)
