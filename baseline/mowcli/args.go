package cli

import (
	"flag"
	"fmt"

	"github.com/jawher/mow.cli/internal/lexer"

	"github.com/jawher/mow.cli/internal/container"
	"github.com/jawher/mow.cli/internal/values"
)

// BoolArg describes a boolean argument
type BoolArg struct {
	// The argument name as will be shown in help messages
	Name string
	// The argument description as will be shown in help messages
	Desc string
	// A space separated list of environment variables names to be used to initialize this argument
	EnvVar string
	// The argument's initial value
	Value bool
	// A boolean to display or not the current value of the argument in the help message
	HideValue bool
	// Set to true if this arg was set by the user (as opposed to being set from env or not set at all)
	SetByUser *bool
}

func (a BoolArg) value(into *bool) (flag.Value, *bool) {
	if into == nil {
		into = new(bool)
	}
	return values.NewBool(into, a.Value), into
}

// StringArg describes a string argument
type StringArg struct {
	// The argument name as will be shown in help messages
	Name string
	// The argument description as will be shown in help messages
	Desc string
	// A space separated list of environment variables names to be used to initialize this argument
	EnvVar string
	// The argument's initial value
	Value string
	// A boolean to display or not the current value of the argument in the help message
	HideValue bool
	// Set to true if this arg was set by the user (as opposed to being set from env or not set at all)
	SetByUser *bool
}

func (a StringArg) value(into *string) (flag.Value, *string) {
	if into == nil {
		into = new(string)
	}
	return values.NewString(into, a.Value), into
}

// IntArg describes an int argument
type IntArg struct {
	// The argument name as will be shown in help messages
	Name string
	// The argument description as will be shown in help messages
	Desc string
	// A space separated list of environment variables names to be used to initialize this argument
	EnvVar string
	// The argument's initial value
	Value int
	// A boolean to display or not the current value of the argument in the help message
	HideValue bool
	// Set to true if this arg was set by the user (as opposed to being set from env or not set at all)
	SetByUser *bool
}

func (a IntArg) value(into *int) (flag.Value, *int) {
	if into == nil {
		into = new(int)
	}
	return values.NewInt(into, a.Value), into
}

// Float64Arg describes an float64 argument
type Float64Arg struct {
	// The argument name as will be shown in help messages
	Name string
	// The argument description as will be shown in help messages
	Desc string
	// A space separated list of environment variables names to be used to initialize this argument
	EnvVar string
	// The argument's initial value
	Value float64
	// A boolean to display or not the current value of the argument in the help message
	HideValue bool
	// Set to true if this arg was set by the user (as opposed to being set from env or not set at all)
	SetByUser *bool
}

func (a Float64Arg) value(into *float64) (flag.Value, *float64) {
	if into == nil {
		into = new(float64)
	}
	return values.NewFloat64(into, a.Value), into
}

// StringsArg describes a string slice argument
type StringsArg struct {
	// The argument name as will be shown in help messages
	Name string
	// The argument description as will be shown in help messages
	Desc string
	// A space separated list of environment variables names to be used to initialize this argument.
	// The env variable should contain a comma separated list of values
	EnvVar string
	// The argument's initial value
	Value []string
	// A boolean to display or not the current value of the argument in the help message
	HideValue bool
	// Set to true if this arg was set by the user (as opposed to being set from env or not set at all)
	SetByUser *bool
}

func (a StringsArg) value(into *[]string) (flag.Value, *[]string) {
	if into == nil {
		into = new([]string)
	}
	return values.NewStrings(into, a.Value), into
}

// IntsArg describes an int slice argument
type IntsArg struct {
	// The argument name as will be shown in help messages
	Name string
	// The argument description as will be shown in help messages
	Desc string
	// A space separated list of environment variables names to be used to initialize this argument.
	// The env variable should contain a comma separated list of values
	EnvVar string
	// The argument's initial value
	Value []int
	// A boolean to display or not the current value of the argument in the help message
	HideValue bool
	// Set to true if this arg was set by the user (as opposed to being set from env or not set at all)
	SetByUser *bool
}

func (a IntsArg) value(into *[]int) (flag.Value, *[]int) {
	if into == nil {
		into = new([]int)
	}
	return values.NewInts(into, a.Value), into
}

// Floats64Arg describes an int slice argument
type Floats64Arg struct {
	// The argument name as will be shown in help messages
	Name string
	// The argument description as will be shown in help messages
	Desc string
	// A space separated list of environment variables names to be used to initialize this argument.
	// The env variable should contain a comma separated list of values
	EnvVar string
	// The argument's initial value
	Value []float64
	// A boolean to display or not the current value of the argument in the help message
	HideValue bool
	// Set to true if this arg was set by the user (as opposed to being set from env or not set at all)
	SetByUser *bool
}

func (a Floats64Arg) value(into *[]float64) (flag.Value, *[]float64) {
	if into == nil {
		into = new([]float64)
	}
	return values.NewFloats64(into, a.Value), into
}

// VarArg describes an argument where the type and format of the value is controlled by the developer
type VarArg struct {
	// A space separated list of the option names *WITHOUT* the dashes, e.g. `f force` and *NOT* `-f --force`.
	// The one letter names will then be called with a single dash (short option), the others with two (long options).
	Name string
	// The option description as will be shown in help messages
	Desc string
	// A space separated list of environment variables names to be used to initialize this option
	EnvVar string
	// A value implementing the flag.Value type (will hold the final value)
	Value flag.Value
	// A boolean to display or not the current value of the option in the help message
	HideValue bool
	// Set to true if this arg was set by the user (as opposed to being set from env or not set at all)
	SetByUser *bool
}

func (a VarArg) value() flag.Value {
	return a.Value
}

/*
BoolArg defines a boolean argument on the command c named `name`, with an initial value of `value` and a description of `desc` which will be used in help messages.

The result should be stored in a variable (a pointer to a bool) which will be populated when the app is run and the call arguments get parsed
*/
func (c *Cmd) BoolArg(name string, value bool, desc string) *bool {
	return c.Bool(BoolArg{
		Name:  name,
		Value: value,
		Desc:  desc,
	})
}

/*
BoolArgPtr defines a boolean argument on the command c named `name`, with an initial value of `value` and a description of `desc` which will be used in help messages.

The into parameter points to a variable (a pointer to a bool) which will be populated when the app is run and the call arguments get parsed
*/
func (c *Cmd) BoolArgPtr(into *bool, name string, value bool, desc string) {
	c.BoolPtr(into, BoolArg{
		Name:  name,
		Value: value,
		Desc:  desc,
	})
}

/*
StringArg defines a string argument on the command c named `name`, with an initial value of `value` and a description of `desc` which will be used in help messages.

The result should be stored in a variable (a pointer to a string) which will be populated when the app is run and the call arguments get parsed
*/
func (c *Cmd) StringArg(name string, value string, desc string) *string {
	return c.String(StringArg{
		Name:  name,
		Value: value,
		Desc:  desc,
	})
}

/*
StringArgPtr defines a string argument on the command c named `name`, with an initial value of `value` and a description of `desc` which will be used in help messages.

The into parameter points to a variable (a pointer to a string) which will be populated when the app is run and the call arguments get parsed
*/
func (c *Cmd) StringArgPtr(into *string, name string, value string, desc string) {
	c.StringPtr(into, StringArg{
		Name:  name,
		Value: value,
		Desc:  desc,
	})
}

/*
IntArg defines an int argument on the command c named `name`, with an initial value of `value` and a description of `desc` which will be used in help messages.

The result should be stored in a variable (a pointer to an int) which will be populated when the app is run and the call arguments get parsed
*/
func (c *Cmd) IntArg(name string, value int, desc string) *int {
	return c.Int(IntArg{
		Name:  name,
		Value: value,
		Desc:  desc,
	})
}

/*
IntArgPtr defines an int argument on the command c named `name`, with an initial value of `value` and a description of `desc` which will be used in help messages.

The into parameter points to a variable (a pointer to a int) which will be populated when the app is run and the call arguments get parsed
*/
func (c *Cmd) IntArgPtr(into *int, name string, value int, desc string) {
	c.IntPtr(into, IntArg{
		Name:  name,
		Value: value,
		Desc:  desc,
	})
}

/*
Float64Arg defines an float64 argument on the command c named `name`, with an initial value of `value` and a description of `desc` which will be used in help messages.

The result should be stored in a variable (a pointer to an float64) which will be populated when the app is run and the call arguments get parsed
*/
func (c *Cmd) Float64Arg(name string, value float64, desc string) *float64 {
	return c.Float64(Float64Arg{
		Name:  name,
		Value: value,
		Desc:  desc,
	})
}

/*
Float64ArgPtr defines an float64 argument on the command c named `name`, with an initial value of `value` and a description of `desc` which will be used in help messages.

The into parameter points to a variable (a pointer to a float64) which will be populated when the app is run and the call arguments get parsed
*/
func (c *Cmd) Float64ArgPtr(into *float64, name string, value float64, desc string) {
	c.Float64Ptr(into, Float64Arg{
		Name:  name,
		Value: value,
		Desc:  desc,
	})
}

/*
StringsArg defines a string slice argument on the command c named `name`, with an initial value of `value` and a description of `desc` which will be used in help messages.

The result should be stored in a variable (a pointer to a string slice) which will be populated when the app is run and the call arguments get parsed
*/
func (c *Cmd) StringsArg(name string, value []string, desc string) *[]string {
	return c.Strings(StringsArg{
		Name:  name,
		Value: value,
		Desc:  desc,
	})
}

/*
StringsArgPtr defines a string slice argument on the command c named `name`, with an initial value of `value` and a description of `desc` which will be used in help messages.

The into parameter points to a variable (a pointer to a string slice) which will be populated when the app is run and the call arguments get parsed
*/
func (c *Cmd) StringsArgPtr(into *[]string, name string, value []string, desc string) {
	c.StringsPtr(into, StringsArg{
		Name:  name,
		Value: value,
		Desc:  desc,
	})
}

/*
IntsArg defines an int slice argument on the command c named `name`, with an initial value of `value` and a description of `desc` which will be used in help messages.

The result should be stored in a variable (a pointer to an int slice) which will be populated when the app is run and the call arguments get parsed
*/
func (c *Cmd) IntsArg(name string, value []int, desc string) *[]int {
	return c.Ints(IntsArg{
		Name:  name,
		Value: value,
		Desc:  desc,
	})
}

/*
IntsArgPtr defines a int slice argument on the command c named `name`, with an initial value of `value` and a description of `desc` which will be used in help messages.

The into parameter points to a variable (a pointer to a int slice) which will be populated when the app is run and the call arguments get parsed
*/
func (c *Cmd) IntsArgPtr(into *[]int, name string, value []int, desc string) {
	c.IntsPtr(into, IntsArg{
		Name:  name,
		Value: value,
		Desc:  desc,
	})
}

/*
Floats64Arg defines an float64 slice argument on the command c named `name`, with an initial value of `value` and a description of `desc` which will be used in help messages.

The result should be stored in a variable (a pointer to an float64 slice) which will be populated when the app is run and the call arguments get parsed
*/
func (c *Cmd) Floats64Arg(name string, value []float64, desc string) *[]float64 {
	return c.Floats64(Floats64Arg{
		Name:  name,
		Value: value,
		Desc:  desc,
	})
}

/*
Floats64ArgPtr defines a float64 slice argument on the command c named `name`, with an initial value of `value` and a description of `desc` which will be used in help messages.

The into parameter points to a variable (a pointer to a float64 slice) which will be populated when the app is run and the call arguments get parsed
*/
func (c *Cmd) Floats64ArgPtr(into *[]float64, name string, value []float64, desc string) {
	c.Floats64Ptr(into, Floats64Arg{
		Name:  name,
		Value: value,
		Desc:  desc,
	})
}

/*
VarArg defines an argument where the type and format is controlled by the developer on the command c named `name` and a description of `desc` which will be used in help messages.

The result will be stored in the value parameter (a value implementing the flag.Value interface) which will be populated when the app is run and the call arguments get parsed
*/
func (c *Cmd) VarArg(name string, value flag.Value, desc string) {
	c.mkArg(container.Container{Name: name, Desc: desc, Value: value})
}

func (c *Cmd) mkArg(arg container.Container) {
	if !validArgName(arg.Name) {
		panic(fmt.Sprintf("invalid argument name %q: must be in all caps", arg.Name))
	}
	if _, found := c.argsIdx[arg.Name]; found {
		panic(fmt.Sprintf("duplicate argument name %q", arg.Name))
	}

	arg.DefaultValue = values.DefaultValue(arg.Value)

	arg.ValueSetFromEnv = values.SetFromEnv(arg.Value, arg.EnvVar)

	c.args = append(c.args, &arg)
	c.argsIdx[arg.Name] = &arg
}

func validArgName(n string) bool {
	tokens, err := lexer.Tokenize(n)
	if err != nil {
		return false
	}
	if len(tokens) != 1 {
		return false
	}

	return tokens[0].Typ == lexer.TTArg
}
