package flow

/*
ExitCode is a value used in a call to panic to signify that code execution should be stopped,
before/after listeners executed and finally that the app whould exit with the provided exit code
*/
type ExitCode int

/*
Step is the building block of execution flow.
It has a code block to run, a success step to go to if the former succeeds, or go to an error step otherwise
*/
type Step struct {
	Do      func()
	Success *Step
	Error   *Step
	Desc    string
	Exiter  func(code int)
}

/*
Run call the code block of the step, moves to the success step if the call went ok, opr the the error step otherwise
*/
func (s *Step) Run(p interface{}) {
	s.callDo(p)

	switch {
	case s.Success != nil:
		s.Success.Run(p)
	case p == nil:
		return
	default:
		if code, ok := p.(ExitCode); ok {
			if s.Exiter != nil {
				s.Exiter(int(code))
			}
			return
		}
		panic(p)
	}
}

func (s *Step) callDo(p interface{}) {
	if s.Do == nil {
		return
	}
	defer func() {
		if e := recover(); e != nil {
			if s.Error == nil {
				panic(p)
			}
			s.Error.Run(e)
		}
	}()
	s.Do()
}
