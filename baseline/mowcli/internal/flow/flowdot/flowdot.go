package flowdot

import (
	"fmt"
	"strings"

	"github.com/jawher/mow.cli/internal/flow"
)

/*
Dot generates a graphviz dot string representing the a flow
*/
func Dot(s *flow.Step) string {
	trs := flowDot(s, map[*flow.Step]bool{})
	return fmt.Sprintf("digraph G {\n\trankdir=LR\n%s\n}\n", strings.Join(trs, "\n"))
}

func flowDot(s *flow.Step, visited map[*flow.Step]bool) []string {
	var res []string
	if visited[s] {
		return res
	}
	visited[s] = true

	if s.Success != nil {
		res = append(res, fmt.Sprintf("\t\"%s\" -> \"%s\" [label=\"ok\"]", s.Desc, s.Success.Desc))
		res = append(res, flowDot(s.Success, visited)...)
	}
	if s.Error != nil {
		res = append(res, fmt.Sprintf("\t\"%s\" -> \"%s\" [label=\"ko\"]", s.Desc, s.Error.Desc))
		res = append(res, flowDot(s.Error, visited)...)
	}
	return res
}
