package container

import "flag"

/*
Container holds an option or an arg data
*/
type Container struct {
	Name            string
	Desc            string
	EnvVar          string
	Names           []string
	HideValue       bool
	ValueSetFromEnv bool
	ValueSetByUser  *bool
	Value           flag.Value
	DefaultValue    string
}
