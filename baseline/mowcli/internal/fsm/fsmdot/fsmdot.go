package fsmdot

import (
	"fmt"
	"strings"

	"github.com/jawher/mow.cli/internal/fsm"
)

// Dot generates a graphviz dot representation of an FSM
func Dot(s *fsm.State) string {
	trs := dot(s, mkStateNames(), map[*fsm.State]struct{}{})
	return fmt.Sprintf("digraph G {\n\trankdir=LR\n%s\n}\n", strings.Join(trs, "\n"))
}

func dot(s *fsm.State, sn *stateNames, visited map[*fsm.State]struct{}) []string {
	var res []string
	if _, ok := visited[s]; ok {
		return res
	}
	id := sn.id(s)
	visited[s] = struct{}{}

	attrs := ""
	if s.Terminal {
		attrs = " [peripheries=2]"
	}
	res = append(res, fmt.Sprintf("\tS%d%s", id, attrs))

	for _, tr := range s.Transitions {
		res = append(res, fmt.Sprintf("\tS%d -> S%d [label=\"%v\"]", id, sn.id(tr.Next), tr.Matcher))
		res = append(res, dot(tr.Next, sn, visited)...)
	}

	return res
}

func mkStateNames() *stateNames {
	return &stateNames{
		counter: 1,
		ids:     map[*fsm.State]int{},
	}
}

type stateNames struct {
	counter int
	ids     map[*fsm.State]int
}

func (sn *stateNames) id(s *fsm.State) int {
	res := sn.ids[s]
	if res != 0 {
		return res
	}
	res = sn.counter
	sn.ids[s] = res
	sn.counter++
	return res
}
