package matcher

import (
	"strings"

	"github.com/jawher/mow.cli/internal/container"
)

// NewArg creates an (positional) argument matcher
func NewArg(a *container.Container) Matcher {
	return &arg{arg: a}
}

type arg struct {
	arg *container.Container
}

func (arg *arg) Match(args []string, c *ParseContext) (bool, []string) {
	if len(args) == 0 {
		return false, args
	}
	if !c.RejectOptions && strings.HasPrefix(args[0], "-") && args[0] != "-" {
		return false, args
	}
	c.Args[arg.arg] = append(c.Args[arg.arg], args[0])
	return true, args[1:]
}

func (*arg) Priority() int {
	return 8
}

func (arg *arg) String() string {
	return arg.arg.Name
}
