package matcher

import "github.com/jawher/mow.cli/internal/container"

// ParseContext holds the state of the arguments parsing, i.e. the encountered options and arguments values, etc.
type ParseContext struct {
	Args          map[*container.Container][]string
	Opts          map[*container.Container][]string
	ExcludedOpts  map[*container.Container]struct{}
	RejectOptions bool
}

// NewParseContext create a new ParseContext
func NewParseContext() ParseContext {
	return ParseContext{
		Args:          map[*container.Container][]string{},
		Opts:          map[*container.Container][]string{},
		ExcludedOpts:  map[*container.Container]struct{}{},
		RejectOptions: false,
	}
}

// Merge adds the values in the provided context in the current context
func (pc ParseContext) Merge(o ParseContext) {
	for k, vs := range o.Args {
		pc.Args[k] = append(pc.Args[k], vs...)
	}

	for k, vs := range o.Opts {
		pc.Opts[k] = append(pc.Opts[k], vs...)
	}
}
