package matcher

/*
Matcher is used to parse and consume the args and populate the ParseContext
*/
type Matcher interface {
	/* Match examines the provided args and:
	- likes it, fills the parse context and returns true and the remaining args it didn't consume
	- doesn't like it, returns false and  the remaining args it didn't consume
	*/
	Match(args []string, c *ParseContext) (bool, []string)
	// Priority used to sort matchers. the lower the returned number, the higher the priority of the matcher
	Priority() int
}

// IsShortcut is a helper to determine whether a given matcher is a Shortcut (always matches)
func IsShortcut(matcher Matcher) bool {
	_, ok := matcher.(shortcut)
	return ok
}
