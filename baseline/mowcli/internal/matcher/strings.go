package matcher

func removeStringAt(idx int, arr []string) []string {
	res := make([]string, len(arr)-1)
	copy(res, arr[:idx])
	copy(res[idx:], arr[idx+1:])
	return res
}

func removeStringsBetween(from, to int, arr []string) []string {
	res := make([]string, len(arr)-(to-from+1))
	copy(res, arr[:from])
	copy(res[from:], arr[to+1:])
	return res
}

func replaceStringAt(idx int, with string, arr []string) []string {
	res := make([]string, len(arr))
	copy(res, arr[:idx])
	res[idx] = with
	copy(res[idx+1:], arr[idx+1:])
	return res
}
