package matcher

import (
	"strings"

	"github.com/jawher/mow.cli/internal/container"
	"github.com/jawher/mow.cli/internal/values"
)

// NewOpt create an option matcher that can consume short and long options
func NewOpt(o *container.Container, index map[string]*container.Container) Matcher {
	return &opt{
		theOne: o,
		index:  index,
	}
}

type opt struct {
	theOne *container.Container
	index  map[string]*container.Container
}

func (*opt) Priority() int {
	return 1
}

func (o *opt) String() string {
	return o.theOne.Names[0]
}

func (o *opt) Match(args []string, c *ParseContext) (bool, []string) {
	if len(args) == 0 || c.RejectOptions {
		return o.theOne.ValueSetFromEnv, args
	}

	idx := 0
	for idx < len(args) {
		arg := args[idx]
		switch {
		case arg == "-":
			return o.theOne.ValueSetFromEnv, args
		case arg == "--":
			return o.theOne.ValueSetFromEnv, args
		case strings.HasPrefix(arg, "--"):
			matched, consumed, nargs := o.matchLongOpt(args, idx, c)

			if matched {
				return true, nargs
			}
			if consumed == 0 {
				return o.theOne.ValueSetFromEnv, args
			}
			idx += consumed

		case strings.HasPrefix(arg, "-"):
			matched, consumed, nargs := o.matchShortOpt(args, idx, c)
			if matched {
				return true, nargs
			}
			if consumed == 0 {
				return o.theOne.ValueSetFromEnv, args
			}
			idx += consumed

		default:
			return o.theOne.ValueSetFromEnv, args
		}
	}
	return o.theOne.ValueSetFromEnv, args
}

func (o *opt) matchLongOpt(args []string, idx int, c *ParseContext) (bool, int, []string) {
	arg := args[idx]
	kv := strings.SplitN(arg, "=", 2)
	name := kv[0]
	opt, found := o.index[name]
	if !found {
		return false, 0, args
	}

	switch {
	case len(kv) == 2:
		if opt != o.theOne {
			return false, 1, args
		}
		value := kv[1]
		if value == "" {
			return false, 0, args
		}
		c.Opts[o.theOne] = append(c.Opts[o.theOne], value)
		return true, 1, removeStringAt(idx, args)
	case values.IsBool(opt.Value):
		if opt != o.theOne {
			return false, 1, args
		}
		c.Opts[o.theOne] = append(c.Opts[o.theOne], "true")
		return true, 1, removeStringAt(idx, args)
	default:
		if len(args[idx:]) < 2 {
			return false, 0, args
		}
		if opt != o.theOne {
			return false, 2, args
		}
		value := args[idx+1]
		if strings.HasPrefix(value, "-") {
			return false, 0, args
		}
		c.Opts[o.theOne] = append(c.Opts[o.theOne], value)
		return true, 2, removeStringsBetween(idx, idx+1, args)
	}
}

func (o *opt) matchShortOpt(args []string, idx int, c *ParseContext) (bool, int, []string) {
	arg := args[idx]
	if len(arg) < 2 {
		return false, 0, args
	}

	if strings.HasPrefix(arg[2:], "=") {
		name := arg[0:2]
		opt := o.index[name]
		if opt != o.theOne {
			return false, 1, args
		}

		value := arg[3:]
		if value == "" {
			return false, 0, args
		}
		c.Opts[o.theOne] = append(c.Opts[o.theOne], value)
		return true, 1, removeStringAt(idx, args)

	}

	rem := arg[1:]

	remIdx := 0
	for len(rem[remIdx:]) > 0 {
		name := "-" + rem[remIdx:remIdx+1]

		opt, found := o.index[name]
		if !found {
			return false, 0, args
		}

		if values.IsBool(opt.Value) {
			if opt != o.theOne {
				remIdx++
				continue
			}

			c.Opts[o.theOne] = append(c.Opts[o.theOne], "true")
			newRem := rem[:remIdx] + rem[remIdx+1:]
			if newRem == "" {
				return true, 1, removeStringAt(idx, args)
			}
			return true, 0, replaceStringAt(idx, "-"+newRem, args)
		}

		value := rem[remIdx+1:]
		if value == "" {
			if len(args[idx+1:]) == 0 {
				return false, 0, args
			}
			if opt != o.theOne {
				return false, 2, args
			}

			value = args[idx+1]
			if strings.HasPrefix(value, "-") {
				return false, 0, args
			}
			c.Opts[o.theOne] = append(c.Opts[o.theOne], value)

			newRem := rem[:remIdx]
			if newRem == "" {
				return true, 2, removeStringsBetween(idx, idx+1, args)
			}

			nargs := replaceStringAt(idx, "-"+newRem, args)

			return true, 1, removeStringAt(idx+1, nargs)
		}

		if opt != o.theOne {
			return false, 1, args
		}
		c.Opts[o.theOne] = append(c.Opts[o.theOne], value)
		newRem := rem[:remIdx]
		if newRem == "" {
			return true, 1, removeStringAt(idx, args)
		}
		return true, 0, replaceStringAt(idx, "-"+newRem, args)

	}

	return false, 1, args
}
