package matcher

// NewOptsEnd returns the special matcher that matches the -- operator
func NewOptsEnd() Matcher {
	return theOptsEnd
}

const (
	theOptsEnd = optsEnd(true)
)

type optsEnd bool

func (optsEnd) Match(args []string, c *ParseContext) (bool, []string) {
	c.RejectOptions = true
	return true, args
}

func (optsEnd) Priority() int {
	return 9
}

func (optsEnd) String() string {
	return "--"
}
