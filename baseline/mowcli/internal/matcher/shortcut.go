package matcher

type shortcut bool

const (
	theShortcut = shortcut(true)
)

// NewShortcut create a special matcher that always matches and doesn't consume any input
func NewShortcut() Matcher {
	return theShortcut
}
func (shortcut) Match(args []string, c *ParseContext) (bool, []string) {
	return true, args
}

func (shortcut) Priority() int {
	return 10
}

func (shortcut) String() string {
	return "*"
}
