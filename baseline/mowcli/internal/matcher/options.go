package matcher

import (
	"strings"

	"github.com/jawher/mow.cli/internal/container"
)

// NewOptions create an Options matcher which can parse a group of options
func NewOptions(opts []*container.Container, index map[string]*container.Container) Matcher {
	return &options{
		options: opts,
		index:   index,
	}
}

type options struct {
	options []*container.Container
	index   map[string]*container.Container
}

func (*options) Priority() int {
	return 2
}

func (om *options) Match(args []string, c *ParseContext) (bool, []string) {
	ok, nargs := om.try(args, c)
	if !ok {
		return false, args
	}

	for {
		ok, nnargs := om.try(nargs, c)
		if !ok {
			return true, nargs
		}
		nargs = nnargs
	}
}

func (om *options) try(args []string, c *ParseContext) (bool, []string) {
	if len(args) == 0 || c.RejectOptions {
		return false, args
	}
	for _, o := range om.options {
		if _, exclude := c.ExcludedOpts[o]; exclude {
			continue
		}
		before := len(c.Opts[o])
		if ok, nargs := (&opt{theOne: o, index: om.index}).Match(args, c); ok {
			if len(c.Opts[o]) == before {
				// matched through its env value only: do not try it again
				c.ExcludedOpts[o] = struct{}{}
			}
			return true, nargs
		}
	}
	return false, args
}

func (om *options) String() string {
	names := "-"
	for _, opt := range om.options {
		s := strings.TrimPrefix(opt.Names[0], "-")
		names = names + s
	}
	return names
}
