package parser

import (
	"fmt"

	"github.com/jawher/mow.cli/internal/container"
	"github.com/jawher/mow.cli/internal/fsm"
	"github.com/jawher/mow.cli/internal/lexer"
	"github.com/jawher/mow.cli/internal/matcher"
)

// Params are used to cofigure the parser
type Params struct {
	Spec       string
	Options    []*container.Container
	OptionsIdx map[string]*container.Container
	Args       []*container.Container
	ArgsIdx    map[string]*container.Container
}

// Parse transforms a slice of tokens into an FSM or returns an ParseError
func Parse(tokens []*lexer.Token, params Params) (*fsm.State, error) {
	p := &parser{
		spec:       params.Spec,
		options:    params.Options,
		optionsIdx: params.OptionsIdx,
		args:       params.Args,
		argsIdx:    params.ArgsIdx,
		tokens:     tokens,
	}
	return p.parse()
}

type parser struct {
	spec       string
	options    []*container.Container
	optionsIdx map[string]*container.Container
	args       []*container.Container
	argsIdx    map[string]*container.Container

	tokens []*lexer.Token

	tkpos int

	matchedToken *lexer.Token

	rejectOptions bool
}

func (p *parser) parse() (s *fsm.State, err error) {
	defer func() {
		if v := recover(); v != nil {
			pos := len(p.spec)
			if !p.eof() {
				pos = p.token().Pos
			}
			s = nil
			switch t, ok := v.(string); ok {
			case true:
				err = &lexer.ParseError{Input: p.spec, Msg: t, Pos: pos}
			default:
				panic(v)
			}
		}
	}()
	err = nil
	var e *fsm.State
	s, e = p.seq(false)
	if !p.eof() {
		s = nil
		err = &lexer.ParseError{Input: p.spec, Msg: "Unexpected input", Pos: p.token().Pos}
		return
	}

	e.Terminal = true
	s.Prepare()
	return
}

func (p *parser) seq(required bool) (*fsm.State, *fsm.State) {
	start := fsm.NewState()
	end := start

	appendComp := func(s, e *fsm.State) {
		for _, tr := range s.Transitions {
			end.T(tr.Matcher, tr.Next)
		}
		end = e
	}

	if required {
		s, e := p.choice()
		appendComp(s, e)
	}
	for p.canAtom() {
		s, e := p.choice()
		appendComp(s, e)
	}

	return start, end
}

func (p *parser) choice() (*fsm.State, *fsm.State) {
	start, end := fsm.NewState(), fsm.NewState()

	add := func(s, e *fsm.State) {
		start.T(matcher.NewShortcut(), s)
		e.T(matcher.NewShortcut(), end)
	}

	add(p.atom())
	for p.found(lexer.TTChoice) {
		add(p.atom())
	}
	return start, end
}

func (p *parser) atom() (*fsm.State, *fsm.State) {
	start := fsm.NewState()
	var end *fsm.State
	switch {
	case p.eof():
		panic("Unexpected end of input")
	case p.found(lexer.TTArg):
		name := p.matchedToken.Val
		arg, declared := p.argsIdx[name]
		if !declared {
			p.back()
			panic(fmt.Sprintf("Undeclared arg %s", name))
		}
		end = start.T(matcher.NewArg(arg), fsm.NewState())
	case p.found(lexer.TTOptions):
		if p.rejectOptions {
			p.back()
			panic("No options after --")
		}
		end = fsm.NewState()
		start.T(matcher.NewOptions(p.options, p.optionsIdx), end)
	case p.found(lexer.TTShortOpt):
		if p.rejectOptions {
			p.back()
			panic("No options after --")
		}
		name := p.matchedToken.Val
		opt, declared := p.optionsIdx[name]
		if !declared {
			p.back()
			panic(fmt.Sprintf("Undeclared option %s", name))
		}
		end = start.T(matcher.NewOpt(opt, p.optionsIdx), fsm.NewState())
		p.found(lexer.TTOptValue)
	case p.found(lexer.TTLongOpt):
		if p.rejectOptions {
			p.back()
			panic("No options after --")
		}
		name := p.matchedToken.Val
		opt, declared := p.optionsIdx[name]
		if !declared {
			p.back()
			panic(fmt.Sprintf("Undeclared option %s", name))
		}
		end = start.T(matcher.NewOpt(opt, p.optionsIdx), fsm.NewState())
		p.found(lexer.TTOptValue)
	case p.found(lexer.TTOptSeq):
		if p.rejectOptions {
			p.back()
			panic("No options after --")
		}
		end = fsm.NewState()
		sq := p.matchedToken.Val
		var opts []*container.Container
		for i := range sq {
			sn := sq[i : i+1]
			opt, declared := p.optionsIdx["-"+sn]
			if !declared {
				p.back()
				panic(fmt.Sprintf("Undeclared option -%s", sn))
			}
			opts = append(opts, opt)
		}
		start.T(matcher.NewOptions(opts, p.optionsIdx), end)
	case p.found(lexer.TTOpenPar):
		start, end = p.seq(true)
		p.expect(lexer.TTClosePar)
	case p.found(lexer.TTOpenSq):
		start, end = p.seq(true)
		start.T(matcher.NewShortcut(), end)
		p.expect(lexer.TTCloseSq)
	case p.found(lexer.TTDoubleDash):
		p.rejectOptions = true
		end = start.T(matcher.NewOptsEnd(), fsm.NewState())
		return start, end
	default:
		panic("Unexpected input: was expecting a command or a positional argument or an option")
	}
	if p.found(lexer.TTRep) {
		end.T(matcher.NewShortcut(), start)
	}
	return start, end
}

func (p *parser) canAtom() bool {
	switch {
	case p.is(lexer.TTArg):
		return true
	case p.is(lexer.TTOptions):
		return true
	case p.is(lexer.TTShortOpt):
		return true
	case p.is(lexer.TTLongOpt):
		return true
	case p.is(lexer.TTOptSeq):
		return true
	case p.is(lexer.TTOpenPar):
		return true
	case p.is(lexer.TTOpenSq):
		return true
	case p.is(lexer.TTDoubleDash):
		return true
	default:
		return false
	}
}

func (p *parser) found(t lexer.TokenType) bool {
	if p.is(t) {
		p.matchedToken = p.token()
		p.tkpos++
		return true
	}
	return false
}

func (p *parser) is(t lexer.TokenType) bool {
	if p.eof() {
		return false
	}
	return p.token().Typ == t
}

func (p *parser) expect(t lexer.TokenType) {
	if !p.found(t) {
		panic(fmt.Sprintf("Was expecting %v", t))
	}
}

func (p *parser) back() {
	p.tkpos--
}
func (p *parser) eof() bool {
	return p.tkpos >= len(p.tokens)
}

func (p *parser) token() *lexer.Token {
	if p.eof() {
		return nil
	}

	return p.tokens[p.tkpos]
}
