package values

import (
	"flag"
	"fmt"
	"strconv"
)

// BoolValued is an interface values can implement to indicate that they are a bool option, i.e. can be set without providing a value with just -f for example
type BoolValued interface {
	flag.Value
	// IsBoolFlag should return true to indicate that this value is a bool value
	IsBoolFlag() bool
}

// MultiValued is an interface ti indicate that a value can hold multiple values
type MultiValued interface {
	flag.Value
	// Clear should clear the list of values
	Clear()
}

// DefaultValued in an interface to determine if the value stored is the default value, and thus does not need be shown in the help message
type DefaultValued interface {
	// IsDefault should return true if the value stored is the default value, and thus does not need be shown in the help message
	IsDefault() bool
}

/******************************************************************************/
/* BOOL                                                                        */
/******************************************************************************/

// BoolValue is a flag.Value type holding boolean values
type BoolValue bool

var (
	_ flag.Value    = NewBool(new(bool), false)
	_ BoolValued    = NewBool(new(bool), false)
	_ DefaultValued = NewBool(new(bool), false)
)

// NewBool creates a new bool value
func NewBool(into *bool, v bool) *BoolValue {
	*into = v
	return (*BoolValue)(into)
}

// Set sets the value from a provided string
func (bo *BoolValue) Set(s string) error {
	b, err := strconv.ParseBool(s)
	if err != nil {
		return err
	}
	*bo = BoolValue(b)
	return nil
}

// IsBoolFlag returns true
func (bo *BoolValue) IsBoolFlag() bool {
	return true
}

func (bo *BoolValue) String() string {
	return fmt.Sprintf("%v", *bo)
}

// IsDefault return true if the bool value is false
func (bo *BoolValue) IsDefault() bool {
	return !bool(*bo)
}

/******************************************************************************/
/* STRING                                                                        */
/******************************************************************************/

// StringValue is a flag.Value type holding string values
type StringValue string

var (
	_ flag.Value    = NewString(new(string), "")
	_ DefaultValued = NewString(new(string), "")
)

// NewString creates a new string value
func NewString(into *string, v string) *StringValue {
	*into = v
	return (*StringValue)(into)
}

// Set sets the value from a provided string
func (sa *StringValue) Set(s string) error {
	*sa = StringValue(s)
	return nil
}

func (sa *StringValue) String() string {
	return fmt.Sprintf("%#v", *sa)
}

// IsDefault return true if the string value is empty
func (sa *StringValue) IsDefault() bool {
	return string(*sa) == ""
}

/******************************************************************************/
/* INT                                                                        */
/******************************************************************************/

// IntValue is a flag.Value type holding int values
type IntValue int

var (
	_ flag.Value = NewInt(new(int), 0)
)

// NewInt creates a new int value
func NewInt(into *int, v int) *IntValue {
	*into = v
	return (*IntValue)(into)
}

// Set sets the value from a provided string
func (ia *IntValue) Set(s string) error {
	i, err := strconv.ParseInt(s, 10, 64)
	if err != nil {
		return err
	}
	*ia = IntValue(int(i))
	return nil
}

func (ia *IntValue) String() string {
	return fmt.Sprintf("%v", *ia)
}

/******************************************************************************/
/* Float64                                                                        */
/******************************************************************************/

// Float64Value is a flag.Value type holding int values
type Float64Value float64

var (
	_ flag.Value = NewFloat64(new(float64), 0)
)

// NewFloat64 creates a new int value
func NewFloat64(into *float64, v float64) *Float64Value {
	*into = v
	return (*Float64Value)(into)
}

// Set sets the value from a provided string
func (ia *Float64Value) Set(s string) error {
	i, err := strconv.ParseFloat(s, 64)
	if err != nil {
		return err
	}
	*ia = Float64Value(i)
	return nil
}

func (ia *Float64Value) String() string {
	return fmt.Sprintf("%v", *ia)
}

/******************************************************************************/
/* STRINGS                                                                    */
/******************************************************************************/

// StringsValue is a flag.Value type holding string slices values
type StringsValue []string

var (
	_ flag.Value    = NewStrings(new([]string), nil)
	_ MultiValued   = NewStrings(new([]string), nil)
	_ DefaultValued = NewStrings(new([]string), nil)
)

// NewStrings creates a new multi-string value
func NewStrings(into *[]string, v []string) *StringsValue {
	*into = v
	return (*StringsValue)(into)
}

// Set sets the value from a provided string
func (sa *StringsValue) Set(s string) error {
	*sa = append(*sa, s)
	return nil
}

func (sa *StringsValue) String() string {
	res := "["
	for idx, s := range *sa {
		if idx > 0 {
			res += ", "
		}
		res += fmt.Sprintf("%#v", s)
	}
	return res + "]"
}

// Clear clears the slice
func (sa *StringsValue) Clear() {
	*sa = nil
}

// IsDefault return true if the string slice is empty
func (sa *StringsValue) IsDefault() bool {
	return len(*sa) == 0
}

/******************************************************************************/
/* INTS                                                                       */
/******************************************************************************/

// IntsValue is a flag.Value type holding int values
type IntsValue []int

var (
	_ flag.Value    = NewInts(new([]int), nil)
	_ MultiValued   = NewInts(new([]int), nil)
	_ DefaultValued = NewInts(new([]int), nil)
)

// NewInts creates a new multi-int value
func NewInts(into *[]int, v []int) *IntsValue {
	*into = v
	return (*IntsValue)(into)
}

// Set sets the value from a provided string
func (ia *IntsValue) Set(s string) error {
	i, err := strconv.ParseInt(s, 10, 64)
	if err != nil {
		return err
	}
	*ia = append(*ia, int(i))
	return nil
}

func (ia *IntsValue) String() string {
	res := "["
	for idx, s := range *ia {
		if idx > 0 {
			res += ", "
		}
		res += fmt.Sprintf("%v", s)
	}
	return res + "]"
}

// Clear clears the slice
func (ia *IntsValue) Clear() {
	*ia = nil
}

// IsDefault return true if the int slice is empty
func (ia *IntsValue) IsDefault() bool {
	return len(*ia) == 0
}

/******************************************************************************/
/* FLOATs64                                                                       */
/******************************************************************************/

// Floats64Value is a flag.Value type holding int values
type Floats64Value []float64

var (
	_ flag.Value    = NewFloats64(new([]float64), nil)
	_ MultiValued   = NewFloats64(new([]float64), nil)
	_ DefaultValued = NewFloats64(new([]float64), nil)
)

// NewFloats64 creates a new multi-int value
func NewFloats64(into *[]float64, v []float64) *Floats64Value {
	*into = v
	return (*Floats64Value)(into)
}

// Set sets the value from a provided string
func (ia *Floats64Value) Set(s string) error {
	i, err := strconv.ParseFloat(s, 64)
	if err != nil {
		return err
	}
	*ia = append(*ia, i)
	return nil
}

func (ia *Floats64Value) String() string {
	res := "["
	for idx, s := range *ia {
		if idx > 0 {
			res += ", "
		}
		res += fmt.Sprintf("%v", s)
	}
	return res + "]"
}

// Clear clears the slice
func (ia *Floats64Value) Clear() {
	*ia = nil
}

// IsDefault return true if the int slice is empty
func (ia *Floats64Value) IsDefault() bool {
	return len(*ia) == 0
}
