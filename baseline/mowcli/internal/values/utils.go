package values

import (
	"flag"
	"os"
	"strings"
)

// IsBool checks if a given value is a bool value, i.e. implements the BoolValued interface
func IsBool(v flag.Value) bool {
	if bf, ok := v.(BoolValued); ok {
		return bf.IsBoolFlag()
	}

	return false
}

// SetFromEnv fills a value from a list of env vars
func SetFromEnv(into flag.Value, envVars string) bool {
	multiValued, isMulti := into.(MultiValued)

	if len(envVars) > 0 {
		for _, ev := range strings.Fields(envVars) {
			v := os.Getenv(ev)
			if len(v) == 0 {
				continue
			}
			if !isMulti {
				if err := into.Set(v); err == nil {
					return true
				}
				continue
			}

			vs := strings.Split(v, ",")
			if err := setMultivalued(multiValued, vs); err == nil {
				return true
			}
		}
	}
	return false
}

func setMultivalued(into MultiValued, values []string) error {
	into.Clear()

	for _, v := range values {
		v = strings.TrimSpace(v)
		if err := into.Set(v); err != nil {
			into.Clear()
			return err
		}
	}

	return nil
}

func DefaultValue(v flag.Value) string {
	if dv, ok := v.(DefaultValued); ok {
		if dv.IsDefault() {
			return ""
		}
	}
	return v.String()
}
