package cli

import (
	"flag"
	"fmt"
	"io"
	"os"

	"github.com/jawher/mow.cli/internal/container"
	"github.com/jawher/mow.cli/internal/flow"
)

/*
Cli represents the structure of a CLI app. It should be constructed using the App() function
*/
type Cli struct {
	*Cmd
	version *cliVersion
}

type cliVersion struct {
	version string
	option  *container.Container
}

/*
App creates a new and empty CLI app configured with the passed name and description.

name and description will be used to construct the help message for the app:

	Usage: $name [OPTIONS] COMMAND [arg...]

	$desc

*/
func App(name, desc string) *Cli {
	return &Cli{
		Cmd: &Cmd{
			name:          name,
			desc:          desc,
			optionsIdx:    map[string]*container.Container{},
			argsIdx:       map[string]*container.Container{},
			ErrorHandling: flag.ExitOnError,
		},
	}
}

/*
Version sets the version string of the CLI app together with the options that can be used to trigger
printing the version string via the CLI.

	Usage: appName --$name
	$version

*/
func (cli *Cli) Version(name, version string) {
	cli.Bool(BoolOpt{
		Name:      name,
		Value:     false,
		Desc:      "Show the version and exit",
		HideValue: true,
	})
	names := mkOptStrs(name)
	option := cli.optionsIdx[names[0]]
	cli.version = &cliVersion{version, option}
}

func (cli *Cli) parse(args []string, entry, inFlow, outFlow *flow.Step) error {
	// We overload Cmd.parse() and handle cases that only apply to the CLI command, like versioning
	// After that, we just call Cmd.parse() for the default behavior
	if cli.versionSetAndRequested(args) {
		cli.PrintVersion()
		cli.onError(errVersionRequested)
		return nil
	}
	return cli.Cmd.parse(args, entry, inFlow, outFlow)
}

func (cli *Cli) versionSetAndRequested(args []string) bool {
	return cli.version != nil && cli.isFirstItemAmong(args, cli.version.option.Names)
}

/*
PrintVersion prints the CLI app's version.
In most cases the library users won't need to call this method, unless
a more complex validation is needed.
*/
func (cli *Cli) PrintVersion() {
	fmt.Fprintln(stdErr, cli.version.version)
}

/*
Run uses the app configuration (specs, commands, ...) to parse the args slice
and to execute the matching command.

In case of an incorrect usage, and depending on the configured ErrorHandling policy,
it may return an error, panic or exit
*/
func (cli *Cli) Run(args []string) error {
	if err := cli.doInit(); err != nil {
		panic(err)
	}
	inFlow := &flow.Step{Desc: "RootIn", Exiter: exiter}
	outFlow := &flow.Step{Desc: "RootOut", Exiter: exiter}
	return cli.parse(args[1:], inFlow, inFlow, outFlow)
}

/*
ActionCommand is a convenience function to configure a command with an action.

cmd.ActionCommand(_, _, myFunc) is equivalent to cmd.Command(_, _, func(cmd *cli.Cmd) { cmd.Action = myFunc })
*/
func ActionCommand(action func()) CmdInitializer {
	return func(cmd *Cmd) {
		cmd.Action = action
	}
}

/*
Exit causes the app the exit with the specified exit code while giving the After interceptors a chance to run.
This should be used instead of os.Exit.
*/
func Exit(code int) {
	panic(flow.ExitCode(code))
}

var exiter = func(code int) {
	os.Exit(code)
}

var (
	stdOut io.Writer = os.Stdout
	stdErr io.Writer = os.Stderr
)
