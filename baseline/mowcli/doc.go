/*
Package cli provides a framework to build command line applications in Go with
most of the burden of arguments parsing and validation placed on the framework
instead of the user.



Basics

To create a new application, initialize an app with cli.App. Specify a name and
a brief description for the application:

    cp := cli.App("cp", "Copy files around")

To attach code to execute when the app is launched, assign a function to the
Action field:

    cp.Action = func() {
        fmt.Printf("Hello world\n")
    }

To assign a version to the application, use Version method and specify the flags
that will be used to invoke the version command:

    cp.Version("v version", "cp 1.2.3")

Finally, in the main func, call Run passing in the arguments for parsing:

    cp.Run(os.Args)



Options

To add one or more command line options (also known as flags), use one of the
short-form StringOpt, StringsOpt, IntOpt, IntsOpt, Float64Opt, Floats64Opt, or BoolOpt methods on App (or
Cmd if adding flags to a command or a subcommand). For example, to add a boolean
flag to the cp command that specifies recursive mode, use the following:

    recursive := cp.BoolOpt("R recursive", false, "recursively copy the src to dst")

or:

    cp.BoolOptPtr(&cfg.recursive, "R recursive", false, "recursively copy the src to dst")

The first version returns a new pointer to a bool value which will be populated when the app is run,
whereas the second version will populate a pointer to an existing variable you specify.

The option name(s) is a space separated list of names (without the
dashes). The one letter names can then be called with a single dash (short option, -R), the others with two dashes (long options, --recursive).

You also specify the default value for the option if it is not supplied by the user.

The last parameter is the description to be shown in help messages.

There is also a second set of methods on App called String, Strings, Int, Ints,
and Bool, which accept a long-form struct of the type: cli.StringOpt,
cli.StringsOpt, cli.IntOpt, cli.IntsOpt, cli.Float64Opt, cli.Floats64Opt, cli.BoolOpt. The struct describes the
option and allows the use of additional features not available in the short-form
methods described above:

    recursive = cp.Bool(cli.BoolOpt{
        Name:       "R recursive",
        Value:      false,
        Desc:       "copy src files recursively",
        EnvVar:     "VAR_RECURSIVE",
        SetByUser:  &recursiveSetByUser,
    })

Or:

    recursive = cp.BoolPtr(&recursive, cli.BoolOpt{
        Name:       "R recursive",
        Value:      false,
        Desc:       "copy src files recursively",
        EnvVar:     "VAR_RECURSIVE",
        SetByUser:  &recursiveSetByUser,
    })

The first version returns a new pointer to a value which will be populated when the app is run,
whereas the second version will populate a pointer to an existing variable you specify.

Two features, EnvVar and SetByUser, can be defined in the long-form struct
method. EnvVar is a space separated list of environment variables used to
initialize the option if a value is not provided by the user. When help messages
are shown, the value of any environment variables will be displayed. SetByUser
is a pointer to a boolean variable that is set to true if the user specified the
value on the command line. This can be useful to determine if the value of the
option was explicitly set by the user or set via the default value.

You can only access the values stored in the pointers in the Action func, which is invoked after
argument parsing has been completed. This precludes using the value of one
option as the default value of another.

On the command line, the following syntaxes are supported when specifying
options.

Boolean options:

    -f         single dash one letter name
    -f=false   single dash one letter name, equal sign followed by true or false
    --force    double dash for longer option names
    -it        single dash for multiple one letter names (option folding), this is equivalent to: -i -t

String, int and float options:

    -e=value       single dash one letter name, equal sign, followed by the value
    -e value       single dash one letter name, space followed by the value
    -Ivalue        single dash one letter name, immediately followed by the value
    --extra=value  double dash for longer option names, equal sign followed by the value
    --extra value  double dash for longer option names, space followed by the value

Slice options (StringsOpt, IntsOpt, Floats64Opt) where option is repeated to accumulate
values in a slice:

    -e PATH:/bin    -e PATH:/usr/bin     resulting slice contains ["/bin", "/usr/bin"]
    -ePATH:/bin     -ePATH:/usr/bin      resulting slice contains ["/bin", "/usr/bin"]
    -e=PATH:/bin    -e=PATH:/usr/bin     resulting slice contains ["/bin", "/usr/bin"]
    --env PATH:/bin --env PATH:/usr/bin  resulting slice contains ["/bin", "/usr/bin"]
    --env=PATH:/bin --env=PATH:/usr/bin  resulting slice contains ["/bin", "/usr/bin"]



Arguments

To add one or more command line arguments (not prefixed by dashes), use one of
the short-form StringArg, StringsArg, IntArg, IntsArg, Float64Arg, Floats64Arg, or BoolArg methods on App
(or Cmd if adding arguments to a command or subcommand). For example, to add two
string arguments to our cp command, use the following calls:

    src := cp.StringArg("SRC", "", "the file to copy")
    dst := cp.StringArg("DST", "", "the destination")

Or:

    cp.StringArgPtr(&src, "SRC", "", "the file to copy")
    cp.StringArgPtr(&dst, "DST", "", "the destination")

The first version returns a new pointer to a value which will be populated when the app is run,
whereas the second version will populate a pointer to an existing variable you specify.

You then specify the argument as will be displayed in help messages.
Argument names must be specified as all uppercase.  The next parameter is the
default value for the argument if it is not supplied. And the last is
the description to be shown in help messages.

There is also a second set of methods on App called String, Strings, Int, Ints,
Float64, Floats64 and Bool, which accept a long-form struct of the type: cli.StringArg,
cli.StringsArg, cli.IntArg, cli.IntsArg, cli.BoolArg. The struct describes the
arguments and allows the use of additional features not available in the
short-form methods described above:

    src = cp.Strings(StringsArg{
        Name:      "SRC",
        Desc:      "The source files to copy",
        Value:     "default value",
        EnvVar:    "VAR1 VAR2",
        SetByUser: &srcSetByUser,
    })

Or:

    src = cp.StringsPtr(&src, StringsArg{
        Name:      "SRC",
        Desc:      "The source files to copy",
        Value:     "default value",
        EnvVar:    "VAR1 VAR2",
        SetByUser: &srcSetByUser,
    })

The first version returns a new pointer to a value which will be populated when the app is run,
whereas the second version will populate a pointer to an existing variable you specify.

Two features, EnvVar and SetByUser, can be defined in the long-form struct
method. EnvVar is a space separated list of environment variables used to
initialize the argument if a value is not provided by the user. When help
messages are shown, the value of any environment variables will be displayed.
SetByUser is a pointer to a boolean variable that is set to true if the user
specified the value on the command line. This can be useful to determine if the
value of the argument was explicitly set by the user or set via the default
value.

You can only access the values stored in the pointers in the Action func, which is invoked after
argument parsing has been completed. This precludes using the value of one
argument as the default value of another.

Operators

The -- operator marks the end of command line options. Everything that follows
will be treated as an argument, even if starts with a dash.  For example, the
standard POSIX touch command, which takes a filename as an argument (and
possibly other options that we'll ignore here), could be defined as:

    file := cp.StringArg("FILE", "", "the file to create")

If we try to create a file named "-f" via our touch command:

    $ touch -f

It will fail because the -f will be parsed as an option, not as an argument. The
fix is to insert -- after all flags have been specified, so the remaining
arguments are parsed as arguments instead of options as follows:

    $ touch -- -f

This ensures the -f is parsed as an argument instead of a flag named f.



Commands

This package supports nesting of commands and subcommands. Declare a top-level
command by calling the Command func on the top-level App struct. For example,
the following creates an application called docker that will have one command
called run:

    docker := cli.App("docker", "A self-sufficient runtime for linux containers")

    docker.Command("run", "Run a command in a new container", func(cmd *cli.Cmd) {
        // initialize the run command here
    })

The first argument is the name of the command the user will specify on the
command line to invoke this command.  The second argument is the description of
the command shown in help messages.  And, the last argument is a CmdInitializer,
which is a function that receives a pointer to a Cmd struct representing the
command.

Within this function, define the options and arguments for the command by
calling the same methods as you would with top-level App struct (BoolOpt,
StringArg, ...).  To execute code when the command is invoked, assign a function
to the Action field of the Cmd struct. Within that function, you can safely
refer to the options and arguments as command line parsing will be completed at
the time the function is invoked:

    docker.Command("run", "Run a command in a new container", func(cmd *cli.Cmd) {
        var (
            detached = cmd.BoolOpt("d detach", false, "Run container in background")
            memory   = cmd.StringOpt("m memory", "", "Set memory limit")
            image    = cmd.StringArg("IMAGE", "", "The image to run")
        )

        cmd.Action = func() {
            if *detached {
                // do something
            }
            runContainer(*image, *detached, *memory)
        }
    })

Optionally, to provide a more extensive description of the command, assign a
string to LongDesc, which is displayed when a user invokes --help. A LongDesc
can be provided for Cmds as well as the top-level App:

    cmd.LongDesc = `Run a command in a new container

    With the docker run command, an operator can add to or override the
    image defaults set by a developer. And, additionally, operators can
    override nearly all the defaults set by the Docker runtime itself.
    The operator’s ability to override image and Docker runtime defaults
    is why run has more options than any other docker command.`

Subcommands can be added by calling Command on the Cmd struct. They can by
defined to any depth if needed:

    docker.Command("job", "actions on jobs", func(job *cli.Cmd) {
        job.Command("list", "list jobs", listJobs)
        job.Command("start", "start a new job", startJob)
        job.Command("log", "log commands", func(log *cli.Cmd) {
            log.Command("show", "show logs", showLog)
            log.Command("clear", "clear logs", clearLog)
        })
    })

Command and subcommand aliases are also supported. To define one or more
aliases, specify a space-separated list of strings to the first argument of
Command:

    job.Command("start run r", "start a new job", startJob)

With the command structure defined above, users can invoke the app in a variety
of ways:

    $ docker job list
    $ docker job start
    $ docker job run   # using the alias we defined
    $ docker job r     # using the alias we defined
    $ docker job log show
    $ docker job log clear

Commands can be hidden in the help messages.
This can prove useful to deprecate a command so that it does not appear to new users in the help, but still exists to not break existing scripts.
To hide a command, set the Hidden field to true:

    app.Command("login", "login to the backend (DEPRECATED: please use auth instead)", func(cmd *cli.Cmd)) {
        cmd.Hidden = true
    }

As a convenience, to assign an Action to a func with no arguments, use
ActionCommand when defining the Command. For example, the following two
statements are equivalent:

    app.Command("list", "list all configs", cli.ActionCommand(list))

    // Exactly the same as above, just more verbose
    app.Command("list", "list all configs", func(cmd *cli.Cmd)) {
        cmd.Action = func() {
            list()
        }
    }

Please note that options, arguments, specs, and long descriptions cannot be
provided when using ActionCommand. This is intended for very simple command
invocations that take no arguments.

Finally, as a side-note, it may seem a bit weird that this package uses a
function to initialize a command instead of simply returning a command struct.
The motivation behind this API decision is scoping: as with the standard flag
package, adding an option or an argument returns a pointer to a value which will
be populated when the app is run.  Since you'll want to store these pointers in
variables, and to avoid having dozens of them in the same scope (the main func
for example or as global variables), this API was specifically tailored to take
a func parameter (called CmdInitializer), which accepts the command struct. With
this design, the command's specific variables are limited in scope to this
function.



Interceptors

Interceptors, or hooks, can be defined to be executed before and after a command
or when any of its subcommands are executed.  For example, the following app
defines multiple commands as well as a global flag which toggles verbosity:

    app := cli.App("app", "bla bla")
    verbose := app.BoolOpt("verbose v", false, "Enable debug logs")

    app.Command("command1", "...", func(cmd *cli.Cmd) {
        if (*verbose) {
            logrus.SetLevel(logrus.DebugLevel)
        }
    })

    app.Command("command2", "...", func(cmd *cli.Cmd) {
        if (*verbose) {
            logrus.SetLevel(logrus.DebugLevel)
        }
    })

Instead of duplicating the check for the verbose flag and setting the debug
level in every command (and its sub-commands), a Before interceptor can be set
on the top-level App instead:

    app.Before = func() {
        if (*verbose) {
            logrus.SetLevel(logrus.DebugLevel)
        }
    }

Whenever a valid command is called by the user, all the Before interceptors
defined on the app and the intermediate commands will be called, in order from
the root to the leaf.

Similarly, to execute a hook after a command has been called, e.g. to cleanup
resources allocated in Before interceptors, simply set the After field of the
App struct or any other Command. After interceptors will be called, in order,
from the leaf up to the root (the opposite order of the Before interceptors).

The following diagram shows when and in which order multiple Before and After
interceptors are executed:

    +------------+    success    +------------+   success   +----------------+     success
    | app.Before +---------------> cmd.Before +-------------> sub_cmd.Before +---------+
    +------------+               +-+----------+             +--+-------------+         |
                                   |                           |                     +-v-------+
                     error         |           error           |                     | sub_cmd |
           +-----------------------+   +-----------------------+                     | Action  |
           |                           |                                             +-+-------+
    +------v-----+               +-----v------+             +----------------+         |
    | app.After  <---------------+ cmd.After  <-------------+  sub_cmd.After <---------+
    +------------+    always     +------------+    always   +----------------+      always



Exiting

To exit the application, use cli.Exit function, which accepts an exit code and
exits the app with the provided code.  It is important to use cli.Exit instead
of os.Exit as the former ensures that all of the After interceptors are executed
before exiting.

    cli.Exit(1)



Spec Strings

An App or Command's invocation syntax can be customized using spec strings. This
can be useful to indicate that an argument is optional or that two options are
mutually exclusive.  The spec string is one of the key differentiators between
this package and other CLI packages as it allows the developer to express usage
in a simple, familiar, yet concise grammar.

To define option and argument usage for the top-level App, assign a spec string
to the App's Spec field:

    cp := cli.App("cp", "Copy files around")
    cp.Spec = "[-R [-H | -L | -P]]"

Likewise, to define option and argument usage for a command or subcommand,
assign a spec string to the Command's Spec field:

    docker := cli.App("docker", "A self-sufficient runtime for linux containers")
    docker.Command("run", "Run a command in a new container", func(cmd *cli.Cmd) {
        cmd.Spec = "[-d|--rm] IMAGE [COMMAND [ARG...]]"
        :
        :
    }

The spec syntax is mostly based on the conventions used in POSIX command line
applications (help messages and man pages). This syntax is described in full
below. If a user invokes the app or command with the incorrect syntax, the app
terminates with a help message showing the proper invocation. The remainder of
this section describes the many features and capabilities of the spec string
grammar.

Options can use both short and long option names in spec strings.  In the
example below, the option is mandatory and must be provided.  Any options
referenced in a spec string MUST be explicitly declared, otherwise this package
will panic. I.e. for each item in the spec string, a corresponding *Opt or *Arg
is required:

    x.Spec = "-f"  // or x.Spec = "--force"
    forceFlag := x.BoolOpt("f force", ...)

Arguments are specified with all-uppercased words.  In the example below, both
SRC and DST must be provided by the user (two arguments).  Like options, any
argument referenced in a spec string MUST be explicitly declared, otherwise this
package will panic:

    x.Spec="SRC DST"
    src := x.StringArg("SRC", ...)
    dst := x.StringArg("DST", ...)

With the exception of options, the order of the elements in a spec string is
respected and enforced when command line arguments are parsed.  In the example
below, consecutive options (-f and -g) are parsed regardless of the order they
are specified (both "-f=5 -g=6" and "-g=6 -f=5" are valid).  Order between
options and arguments is significant (-f and -g must appear before the SRC
argument). The same holds true for arguments, where SRC must appear before DST:

    x.Spec = "-f -g SRC -h DST"
    var (
        factor = x.IntOpt("f", 1, "Fun factor (1-5)")
        games  = x.IntOpt("g", 1, "# of games")
        health = x.IntOpt("h", 1, "# of hosts")
        src    = x.StringArg("SRC", ...)
        dst    = x.StringArg("DST", ...)
    )

Optionality of options and arguments is specified in a spec string by enclosing
the item in square brackets []. If the user does not provide an optional value,
the app will use the default value specified when the argument was defined. In
the example below, if -x is not provided, heapSize will default to 1024:

    x.Spec = "[-x]"
    heapSize := x.IntOpt("x", 1024, "Heap size in MB")

Choice between two or more items is specified in a spec string by separating
each choice with the | operator. Choices are mutually exclusive. In the examples
below, only a single choice can be provided by the user otherwise the app will
terminate displaying a help message on proper usage:

    x.Spec = "--rm | --daemon"
    x.Spec = "-H | -L | -P"
    x.Spec = "-t | DST"

Repetition of options and arguments is specified in a spec string with the ...
postfix operator to mark an item as repeatable. Both options and arguments
support repitition. In the example below, users may invoke the command with
multiple -e options and multiple SRC arguments:

    x.Spec = "-e... SRC..."

    // Allows parsing of the following shell command:
    //   $ app -eeeee file1 file2
    //   $ app -e -e -e -e file1 file2

Grouping of options and arguments is specified in a spec string with
parenthesis.  When combined with the choice | and repetition ... operators,
complex syntaxes can be created. The parenthesis in the example below indicate a
repeatable sequence of a -e option followed by an argument, and that is mutually
exclusive to a choice between -x and -y options.

    x.Spec = "(-e COMMAND)... | (-x|-y)"

    // Allows parsing of the following shell command:
    //   $ app -e show -e add
    //   $ app -y
    // But not the following:
    //   $ app -e show -x

Option groups, or option folding, are a shorthand method to declaring a choice
between multiple options.  I.e. any combination of the listed options in any
order with at least one option selected. The following two statements are
equivalent:

    x.Spec = "-abcd"
    x.Spec = "(-a | -b | -c | -d)..."

Option groups are typically used in conjunction with optionality [] operators.
I.e. any combination of the listed options in any order or none at all. The
following two statements are equivalent:

    x.Spec = "[-abcd]"
    x.Spec = "[-a | -b | -c | -d]..."

All of the options can be specified using a special syntax: [OPTIONS]. This is a
special token in the spec string (not optionality and not an argument called
OPTIONS). It is equivalent to an optional repeatable choice between all the
available options. For example, if an app or a command declares 4 options a, b,
c and d, then the following two statements are equivalent:

    x.Spec = "[OPTIONS]"
    x.Spec = "[-a | -b | -c | -d]..."

Inline option values are specified in the spec string with the =<some-text>
notation immediately following an option (long or short form) to provide users
with an inline description or value. The actual inline values are ignored by the
spec parser as they exist only to provide a contextual hint to the user. In the
example below, "absolute-path" and "in seconds" are ignored by the parser:

    x.Spec = "[ -a=<absolute-path> | --timeout=<in seconds> ] ARG"

The -- operator can be used to automatically treat everything following it as
arguments.  In other words, placing a -- in the spec string automatically
inserts a -- in the same position in the program call arguments. This lets you
write programs such as the POSIX time utility for example:

    x.Spec = "-lp [-- CMD [ARG...]]"

    // Allows parsing of the following shell command:
    //   $ app -p ps -aux



Spec Grammar

Below is the full EBNF grammar for the Specs language:

    spec         -> sequence
    sequence     -> choice*
    req_sequence -> choice+
    choice       -> atom ('|' atom)*
    atom         -> (shortOpt | longOpt | optSeq | allOpts | group | optional) rep?
    shortOp      -> '-' [A-Za-z]
    longOpt      -> '--' [A-Za-z][A-Za-z0-9]*
    optSeq       -> '-' [A-Za-z]+
    allOpts      -> '[OPTIONS]'
    group        -> '(' req_sequence ')'
    optional     -> '[' req_sequence ']'
    rep          -> '...'

By combining a few of these building blocks together (while respecting the
grammar above), powerful and sophisticated validation constraints can be created
in a simple and concise manner without having to define in code. This is one of
the key differentiators between this package and other CLI packages. Validation
of usage is handled entirely by the package through the spec string.

Behind the scenes, this package parses the spec string and constructs a finite
state machine used to parse the command line arguments. It also handles
backtracking, which allows it to handle tricky cases, or what I like to call
"the cp test":

    cp SRC... DST

Without backtracking, this deceptively simple spec string cannot be parsed
correctly. For instance, docopt can't handle this case, whereas this package
does.



Default Spec

By default an auto-generated spec string is created for the app and every
command unless a spec string has been set by the user.  This can simplify use of
the package even further for simple syntaxes.

The following logic is used to create an auto-generated spec string: 1) start
with an empty spec string, 2) if at least one option was declared, append
"[OPTIONS]" to the spec string, and 3) for each declared argument, append it, in
the order of declaration, to the spec string. For example, given this command
declaration:

    docker.Command("run", "Run a command in a new container", func(cmd *cli.Cmd) {
        var (
            detached = cmd.BoolOpt("d detach", false, "Run container in background")
            memory   = cmd.StringOpt("m memory", "", "Set memory limit")
            image    = cmd.StringArg("IMAGE", "", "The image to run")
            args     = cmd.StringsArg("ARG", nil, "Arguments")
        )
    })

The auto-generated spec string, which should suffice for simple cases, would be:

    [OPTIONS] IMAGE ARG

If additional constraints are required, the spec string must be set explicitly
using the grammar documented above.



Custom Types

By default, the following types are supported for options and arguments: bool,
string, int, float64, strings (slice of strings), ints (slice of ints) and floats64 (slice of float64).
You can, however, extend this package to handle other types, e.g. time.Duration, float64,
or even your own struct types.

To define your own custom type, you must implement the flag.Value interface for
your custom type, and then declare the option or argument using VarOpt or VarArg
respectively if using the short-form methods. If using the long-form struct,
then use Var instead.

The following example defines a custom type for a duration. It defines a
duration argument that users will be able to invoke with strings in the form of
"1h31m42s":

    // Declare your type
    type Duration time.Duration

    // Make it implement flag.Value
    func (d *Duration) Set(v string) error {
        parsed, err := time.ParseDuration(v)
        if err != nil {
            return err
        }
        *d = Duration(parsed)
        return nil
    }

    func (d *Duration) String() string {
        duration := time.Duration(*d)
        return duration.String()
    }

    func main() {
        duration := Duration(0)
        app := App("var", "")
        app.VarArg("DURATION", &duration, "")
        app.Run([]string{"cp", "1h31m42s"})
    }

To make a custom type to behave as a boolean option, i.e. doesn't take a value,
it must implement the IsBoolFlag method that returns true:

    type BoolLike int

    func (d *BoolLike) IsBoolFlag() bool {
        return true
    }

To make a custom type behave as a multi-valued option or argument, i.e. takes
multiple values, it must implement the Clear method, which is called whenever
the values list needs to be cleared, e.g. when the value was initially populated
from an environment variable, and then explicitly set from the CLI:

    type Durations []time.Duration

    // Make it implement flag.Value
    func (d *Durations) Set(v string) error {
        parsed, err := time.ParseDuration(v)
        if err != nil {
            return err
        }
        *d = append(*d, Duration(parsed))
        return nil
    }

    func (d *Durations) String() string {
        return fmt.Sprintf("%v", *d)
    }

    // Make it multi-valued
    func (d *Durations) Clear() {
        *d = []Duration{}
    }

To hide the default value of a custom type, it must implement the IsDefault
method that returns a boolean. The help message generator will use the return
value to decide whether or not to display the default value to users:

    type Action string

    func (a *Action) IsDefault() bool {
        return (*a) == "nop"
    }


*/
package cli
