package cli

import (
	"flag"
	"fmt"
	"io"
	"strings"
	"text/tabwriter"

	"github.com/jawher/mow.cli/internal/container"
	"github.com/jawher/mow.cli/internal/flow"
	"github.com/jawher/mow.cli/internal/fsm"
	"github.com/jawher/mow.cli/internal/lexer"
	"github.com/jawher/mow.cli/internal/parser"
)

/*
Cmd represents a command (or sub command) in a CLI application. It should be constructed
by calling Command() on an app to create a top level command or by calling Command() on another
command to create a sub command
*/
type Cmd struct {
	// The code to execute when this command is matched
	Action func()
	// The code to execute before this command or any of its children is matched
	Before func()
	// The code to execute after this command or any of its children is matched
	After func()
	// The command options and arguments
	Spec string
	// The command long description to be shown when help is requested
	LongDesc string
	// Hide this command in the help messages
	Hidden bool
	// The command error handling strategy
	ErrorHandling flag.ErrorHandling

	init    CmdInitializer
	name    string
	aliases []string
	desc    string

	commands   []*Cmd
	options    []*container.Container
	optionsIdx map[string]*container.Container
	args       []*container.Container
	argsIdx    map[string]*container.Container

	parents []string

	fsm *fsm.State
}

/*
BoolParam represents a Bool option or argument
*/
type BoolParam interface {
	value(into *bool) (flag.Value, *bool)
}

/*
StringParam represents a String option or argument
*/
type StringParam interface {
	value(into *string) (flag.Value, *string)
}

/*
IntParam represents an Int option or argument
*/
type IntParam interface {
	value(into *int) (flag.Value, *int)
}

/*
Float64Param represents an Float64 option or argument
*/
type Float64Param interface {
	value(into *float64) (flag.Value, *float64)
}

/*
StringsParam represents a string slice option or argument
*/
type StringsParam interface {
	value(into *[]string) (flag.Value, *[]string)
}

/*
IntsParam represents an float64 slice option or argument
*/
type IntsParam interface {
	value(into *[]int) (flag.Value, *[]int)
}

/*
Floats64Param represents an float64 slice option or argument
*/
type Floats64Param interface {
	value(into *[]float64) (flag.Value, *[]float64)
}

/*
VarParam represents an custom option or argument where the type and format are controlled by the developer
*/
type VarParam interface {
	value() flag.Value
}

/*
CmdInitializer is a function that configures a command by adding options, arguments, a spec, sub commands and the code
to execute when the command is called
*/
type CmdInitializer func(*Cmd)

/*
Command adds a new (sub) command to c where name is the command name (what you type in the console),
description is what would be shown in the help messages, e.g.:

	Usage: git [OPTIONS] COMMAND [arg...]

	Commands:
	  $name	$desc

the last argument, init, is a function that will be called by mow.cli to further configure the created
(sub) command, e.g. to add options, arguments and the code to execute
*/
func (c *Cmd) Command(name, desc string, init CmdInitializer) {
	aliases := strings.Fields(name)
	c.commands = append(c.commands, &Cmd{
		ErrorHandling: c.ErrorHandling,
		name:          aliases[0],
		aliases:       aliases,
		desc:          desc,
		init:          init,
		commands:      []*Cmd{},
		options:       []*container.Container{},
		optionsIdx:    map[string]*container.Container{},
		args:          []*container.Container{},
		argsIdx:       map[string]*container.Container{},
	})
}

/*
Bool can be used to add a bool option or argument to a command.
It accepts either a BoolOpt or a BoolArg struct.

The result should be stored in a variable (a pointer to a bool) which will be populated when the app is run and the call arguments get parsed
*/
func (c *Cmd) Bool(p BoolParam) *bool {
	value, into := p.value(nil)

	switch x := p.(type) {
	case BoolOpt:
		c.mkOpt(container.Container{Name: x.Name, Desc: x.Desc, EnvVar: x.EnvVar, HideValue: x.HideValue, Value: value, ValueSetByUser: x.SetByUser})
	case BoolArg:
		c.mkArg(container.Container{Name: x.Name, Desc: x.Desc, EnvVar: x.EnvVar, HideValue: x.HideValue, Value: value, ValueSetByUser: x.SetByUser})
	default:
		panic(fmt.Sprintf("Unhandled param %v", p))
	}

	return into
}

/*
BoolPtr can be used to add a bool option or argument to a command.
It accepts either a pointer to a bool var and a BoolOpt or a BoolArg struct.

The into parameter points to a variable (a pointer to a bool) which will be populated when the app is run and the call arguments get parsed
*/
func (c *Cmd) BoolPtr(into *bool, p BoolParam) {
	value, _ := p.value(into)

	switch x := p.(type) {
	case BoolOpt:
		c.mkOpt(container.Container{Name: x.Name, Desc: x.Desc, EnvVar: x.EnvVar, HideValue: x.HideValue, Value: value, ValueSetByUser: x.SetByUser})
	case BoolArg:
		c.mkArg(container.Container{Name: x.Name, Desc: x.Desc, EnvVar: x.EnvVar, HideValue: x.HideValue, Value: value, ValueSetByUser: x.SetByUser})
	default:
		panic(fmt.Sprintf("Unhandled param %v", p))
	}
}

/*
String can be used to add a string option or argument to a command.
It accepts either a StringOpt or a StringArg struct.

The result should be stored in a variable (a pointer to a string) which will be populated when the app is run and the call arguments get parsed
*/
func (c *Cmd) String(p StringParam) *string {
	value, into := p.value(nil)

	switch x := p.(type) {
	case StringOpt:
		c.mkOpt(container.Container{Name: x.Name, Desc: x.Desc, EnvVar: x.EnvVar, HideValue: x.HideValue, Value: value, ValueSetByUser: x.SetByUser})
	case StringArg:
		c.mkArg(container.Container{Name: x.Name, Desc: x.Desc, EnvVar: x.EnvVar, HideValue: x.HideValue, Value: value, ValueSetByUser: x.SetByUser})
	default:
		panic(fmt.Sprintf("Unhandled param %v", p))
	}

	return into
}

/*
StringPtr can be used to add a string option or argument to a command.
It accepts either a pointer to a string var and a StringOpt or a StringArg struct.

The into parameter points to a variable (a pointer to a string) which will be populated when the app is run and the call arguments get parsed
*/
func (c *Cmd) StringPtr(into *string, p StringParam) {
	value, _ := p.value(into)

	switch x := p.(type) {
	case StringOpt:
		c.mkOpt(container.Container{Name: x.Name, Desc: x.Desc, EnvVar: x.EnvVar, HideValue: x.HideValue, Value: value, ValueSetByUser: x.SetByUser})
	case StringArg:
		c.mkArg(container.Container{Name: x.Name, Desc: x.Desc, EnvVar: x.EnvVar, HideValue: x.HideValue, Value: value, ValueSetByUser: x.SetByUser})
	default:
		panic(fmt.Sprintf("Unhandled param %v", p))
	}
}

/*
Int can be used to add an int option or argument to a command.
It accepts either a IntOpt or a IntArg struct.

The result should be stored in a variable (a pointer to an int) which will be populated when the app is run and the call arguments get parsed
*/
func (c *Cmd) Int(p IntParam) *int {
	value, into := p.value(nil)

	switch x := p.(type) {
	case IntOpt:
		c.mkOpt(container.Container{Name: x.Name, Desc: x.Desc, EnvVar: x.EnvVar, HideValue: x.HideValue, Value: value, ValueSetByUser: x.SetByUser})
	case IntArg:
		c.mkArg(container.Container{Name: x.Name, Desc: x.Desc, EnvVar: x.EnvVar, HideValue: x.HideValue, Value: value, ValueSetByUser: x.SetByUser})
	default:
		panic(fmt.Sprintf("Unhandled param %v", p))
	}

	return into
}

/*
IntPtr can be used to add a int option or argument to a command.
It accepts either a pointer to a int var and a IntOpt or a IntArg struct.

The into parameter points to a variable (a pointer to a int) which will be populated when the app is run and the call arguments get parsed
*/
func (c *Cmd) IntPtr(into *int, p IntParam) {
	value, _ := p.value(into)

	switch x := p.(type) {
	case IntOpt:
		c.mkOpt(container.Container{Name: x.Name, Desc: x.Desc, EnvVar: x.EnvVar, HideValue: x.HideValue, Value: value, ValueSetByUser: x.SetByUser})
	case IntArg:
		c.mkArg(container.Container{Name: x.Name, Desc: x.Desc, EnvVar: x.EnvVar, HideValue: x.HideValue, Value: value, ValueSetByUser: x.SetByUser})
	default:
		panic(fmt.Sprintf("Unhandled param %v", p))
	}
}

/*
Float64 can be used to add a float64 option or argument to a command.
It accepts either a Float64Opt or a Float64Arg struct.

The result should be stored in a variable (a pointer to a float64) which will be populated when the app is run and the call arguments get parsed
*/
func (c *Cmd) Float64(p Float64Param) *float64 {
	value, into := p.value(nil)

	switch x := p.(type) {
	case Float64Opt:
		c.mkOpt(container.Container{Name: x.Name, Desc: x.Desc, EnvVar: x.EnvVar, HideValue: x.HideValue, Value: value, ValueSetByUser: x.SetByUser})
	case Float64Arg:
		c.mkArg(container.Container{Name: x.Name, Desc: x.Desc, EnvVar: x.EnvVar, HideValue: x.HideValue, Value: value, ValueSetByUser: x.SetByUser})
	default:
		panic(fmt.Sprintf("Unhandled param %v", p))
	}

	return into
}

/*
Float64Ptr can be used to add a float64 option or argument to a command.
It accepts either a pointer to a float64 var and a Float64Opt or a Float64Arg struct.

The into parameter points to a variable (a pointer to a float64) which will be populated when the app is run and the call arguments get parsed
*/
func (c *Cmd) Float64Ptr(into *float64, p Float64Param) {
	value, _ := p.value(into)

	switch x := p.(type) {
	case Float64Opt:
		c.mkOpt(container.Container{Name: x.Name, Desc: x.Desc, EnvVar: x.EnvVar, HideValue: x.HideValue, Value: value, ValueSetByUser: x.SetByUser})
	case Float64Arg:
		c.mkArg(container.Container{Name: x.Name, Desc: x.Desc, EnvVar: x.EnvVar, HideValue: x.HideValue, Value: value, ValueSetByUser: x.SetByUser})
	default:
		panic(fmt.Sprintf("Unhandled param %v", p))
	}
}

/*
Strings can be used to add a string slice option or argument to a command.
It accepts either a StringsOpt or a StringsArg struct.

The result should be stored in a variable (a pointer to a string slice) which will be populated when the app is run and the call arguments get parsed
*/
func (c *Cmd) Strings(p StringsParam) *[]string {
	value, into := p.value(nil)

	switch x := p.(type) {
	case StringsOpt:
		c.mkOpt(container.Container{Name: x.Name, Desc: x.Desc, EnvVar: x.EnvVar, HideValue: x.HideValue, Value: value, ValueSetByUser: x.SetByUser})
	case StringsArg:
		c.mkArg(container.Container{Name: x.Name, Desc: x.Desc, EnvVar: x.EnvVar, HideValue: x.HideValue, Value: value, ValueSetByUser: x.SetByUser})
	default:
		panic(fmt.Sprintf("Unhandled param %v", p))
	}

	return into
}

/*
StringsPtr can be used to add a string slice option or argument to a command.
It accepts either a pointer to a string slice var and a StringsOpt or a StringsArg struct.

The into parameter points to a variable (a pointer to a string slice) which will be populated when the app is run and the call arguments get parsed
*/
func (c *Cmd) StringsPtr(into *[]string, p StringsParam) {
	value, _ := p.value(into)

	switch x := p.(type) {
	case StringsOpt:
		c.mkOpt(container.Container{Name: x.Name, Desc: x.Desc, EnvVar: x.EnvVar, HideValue: x.HideValue, Value: value, ValueSetByUser: x.SetByUser})
	case StringsArg:
		c.mkArg(container.Container{Name: x.Name, Desc: x.Desc, EnvVar: x.EnvVar, HideValue: x.HideValue, Value: value, ValueSetByUser: x.SetByUser})
	default:
		panic(fmt.Sprintf("Unhandled param %v", p))
	}
}

/*
Ints can be used to add an int slice option or argument to a command.
It accepts either a IntsOpt or a IntsArg struct.

The result should be stored in a variable (a pointer to an int slice) which will be populated when the app is run and the call arguments get parsed
*/
func (c *Cmd) Ints(p IntsParam) *[]int {
	value, into := p.value(nil)

	switch x := p.(type) {
	case IntsOpt:
		c.mkOpt(container.Container{Name: x.Name, Desc: x.Desc, EnvVar: x.EnvVar, HideValue: x.HideValue, Value: value, ValueSetByUser: x.SetByUser})
	case IntsArg:
		c.mkArg(container.Container{Name: x.Name, Desc: x.Desc, EnvVar: x.EnvVar, HideValue: x.HideValue, Value: value, ValueSetByUser: x.SetByUser})
	default:
		panic(fmt.Sprintf("Unhandled param %v", p))
	}

	return into
}

/*
IntsPtr can be used to add a int slice option or argument to a command.
It accepts either a pointer to a int slice var and a IntsOpt or a IntsArg struct.

The into parameter points to a variable (a pointer to a int slice) which will be populated when the app is run and the call arguments get parsed
*/
func (c *Cmd) IntsPtr(into *[]int, p IntsParam) {
	value, _ := p.value(into)

	switch x := p.(type) {
	case IntsOpt:
		c.mkOpt(container.Container{Name: x.Name, Desc: x.Desc, EnvVar: x.EnvVar, HideValue: x.HideValue, Value: value, ValueSetByUser: x.SetByUser})
	case IntsArg:
		c.mkArg(container.Container{Name: x.Name, Desc: x.Desc, EnvVar: x.EnvVar, HideValue: x.HideValue, Value: value, ValueSetByUser: x.SetByUser})
	default:
		panic(fmt.Sprintf("Unhandled param %v", p))
	}
}

/*
Floats64 can be used to add an float64 slice option or argument to a command.
It accepts either a Floats64Opt or a Floats64Arg struct.

The result should be stored in a variable (a pointer to an float64 slice) which will be populated when the app is run and the call arguments get parsed
*/
func (c *Cmd) Floats64(p Floats64Param) *[]float64 {
	value, into := p.value(nil)

	switch x := p.(type) {
	case Floats64Opt:
		c.mkOpt(container.Container{Name: x.Name, Desc: x.Desc, EnvVar: x.EnvVar, HideValue: x.HideValue, Value: value, ValueSetByUser: x.SetByUser})
	case Floats64Arg:
		c.mkArg(container.Container{Name: x.Name, Desc: x.Desc, EnvVar: x.EnvVar, HideValue: x.HideValue, Value: value, ValueSetByUser: x.SetByUser})
	default:
		panic(fmt.Sprintf("Unhandled param %v", p))
	}

	return into
}

/*
Floats64Ptr can be used to add a float64 slice option or argument to a command.
It accepts either a pointer to a float64 slice var and a Floats64Opt or a Floats64Arg struct.

The into parameter points to a variable (a pointer to a float64 slice) which will be populated when the app is run and the call arguments get parsed
*/
func (c *Cmd) Floats64Ptr(into *[]float64, p Floats64Param) {
	value, _ := p.value(into)

	switch x := p.(type) {
	case Floats64Opt:
		c.mkOpt(container.Container{Name: x.Name, Desc: x.Desc, EnvVar: x.EnvVar, HideValue: x.HideValue, Value: value, ValueSetByUser: x.SetByUser})
	case Floats64Arg:
		c.mkArg(container.Container{Name: x.Name, Desc: x.Desc, EnvVar: x.EnvVar, HideValue: x.HideValue, Value: value, ValueSetByUser: x.SetByUser})
	default:
		panic(fmt.Sprintf("Unhandled param %v", p))
	}
}

/*
Var can be used to add a custom option or argument to a command.
It accepts either a VarOpt or a VarArg struct.

As opposed to the other built-in types, this function does not return a pointer the the value.
Instead, the VarOpt or VarOptArg structs hold the said value.
*/
func (c *Cmd) Var(p VarParam) {
	switch x := p.(type) {
	case VarOpt:
		c.mkOpt(container.Container{Name: x.Name, Desc: x.Desc, EnvVar: x.EnvVar, HideValue: x.HideValue, Value: p.value(), ValueSetByUser: x.SetByUser})
	case VarArg:
		c.mkArg(container.Container{Name: x.Name, Desc: x.Desc, EnvVar: x.EnvVar, HideValue: x.HideValue, Value: p.value(), ValueSetByUser: x.SetByUser})
	default:
		panic(fmt.Sprintf("Unhandled param %v", p))
	}
}

func (c *Cmd) doInit() error {
	if c.init != nil {
		c.init(c)
	}

	parents := append(c.parents, c.name)

	for _, sub := range c.commands {
		sub.parents = parents
	}

	if len(c.Spec) == 0 {
		if len(c.options) > 0 {
			c.Spec = "[OPTIONS] "
		}
		for _, arg := range c.args {
			c.Spec += arg.Name + " "
		}
	}

	tokens, err := lexer.Tokenize(c.Spec)
	if err != nil {
		return err
	}

	params := parser.Params{
		Spec:       c.Spec,
		Options:    c.options,
		OptionsIdx: c.optionsIdx,
		Args:       c.args,
		ArgsIdx:    c.argsIdx,
	}
	s, err := parser.Parse(tokens, params)
	if err != nil {
		return err
	}
	c.fsm = s
	return nil
}

func (c *Cmd) onError(err error) {
	if err == errHelpRequested || err == errVersionRequested {
		if c.ErrorHandling == flag.ExitOnError {
			exiter(0)
		}
		return
	}

	switch c.ErrorHandling {
	case flag.ExitOnError:
		exiter(2)
	case flag.PanicOnError:
		panic(err)
	}

}

/*
PrintHelp prints the command's help message.
In most cases the library users won't need to call this method, unless
a more complex validation is needed
*/
func (c *Cmd) PrintHelp() {
	c.printHelp(false)
}

/*
PrintLongHelp prints the command's help message using the command long description if specified.
In most cases the library users won't need to call this method, unless
a more complex validation is needed
*/
func (c *Cmd) PrintLongHelp() {
	c.printHelp(true)
}

func (c *Cmd) printHelp(longDesc bool) {
	full := append(c.parents, c.name)
	path := strings.Join(full, " ")
	fmt.Fprintf(stdErr, "\nUsage: %s", path)

	spec := strings.TrimSpace(c.Spec)
	if len(spec) > 0 {
		fmt.Fprintf(stdErr, " %s", spec)
	}

	if len(c.commands) > 0 {
		fmt.Fprint(stdErr, " COMMAND [arg...]")
	}
	fmt.Fprint(stdErr, "\n\n")

	desc := c.desc
	if longDesc && len(c.LongDesc) > 0 {
		desc = c.LongDesc
	}
	if len(desc) > 0 {
		fmt.Fprintf(stdErr, "%s\n", desc)
	}

	w := tabwriter.NewWriter(stdErr, 15, 1, 3, ' ', 0)

	if len(c.args) > 0 {
		fmt.Fprint(w, "\t\nArguments:\t\n")

		for _, arg := range c.args {
			var (
				env   = formatEnvVarsForHelp(arg.EnvVar)
				value = formatValueForHelp(arg.HideValue, arg.DefaultValue)
			)
			printTabbedRow(w, arg.Name, joinStrings(arg.Desc, env, value))
		}
	}

	if len(c.options) > 0 {
		fmt.Fprint(w, "\t\nOptions:\t\n")

		for _, opt := range c.options {
			var (
				optNames = formatOptNamesForHelp(opt)
				env      = formatEnvVarsForHelp(opt.EnvVar)
				value    = formatValueForHelp(opt.HideValue, opt.DefaultValue)
			)
			printTabbedRow(w, optNames, joinStrings(opt.Desc, env, value))
		}
	}

	commands := make([]*Cmd, 0, len(c.commands))
	for _, c := range c.commands {
		if err := c.doInit(); err != nil {
			panic(err)
		}

		if c.Hidden {
			continue
		}

		commands = append(commands, c)
	}

	if len(commands) > 0 {
		fmt.Fprint(w, "\t\nCommands:\t\n")

		for _, c := range commands {
			fmt.Fprintf(w, "  %s\t%s\n", strings.Join(c.aliases, ", "), c.desc)
		}
	}

	if len(commands) > 0 {
		fmt.Fprintf(w, "\t\nRun '%s COMMAND --help' for more information on a command.\n", path)
	}

	w.Flush()
}

func formatOptNamesForHelp(o *container.Container) string {
	short, long := "", ""

	for _, n := range o.Names {
		if len(n) == 2 && short == "" {
			short = n
		}

		if len(n) > 2 && long == "" {
			long = n
		}
	}

	switch {
	case short != "" && long != "":
		return fmt.Sprintf("%s, %s", short, long)
	case short != "":
		return short
	case long != "":
		// 2 spaces instead of the short option (-x), one space for the comma (,) and one space for the after comma blank
		return fmt.Sprintf("    %s", long)
	default:
		return ""
	}
}

func formatValueForHelp(hide bool, v string) string {
	if hide {
		return ""
	}

	if v == "" {
		return ""
	}

	return fmt.Sprintf("(default %s)", v)
}

func formatEnvVarsForHelp(envVars string) string {
	if strings.TrimSpace(envVars) == "" {
		return ""
	}
	vars := strings.Fields(envVars)
	res := "(env"
	sep := " "
	for i, v := range vars {
		if i > 0 {
			sep = ", "
		}
		res += fmt.Sprintf("%s$%s", sep, v)
	}
	res += ")"
	return res
}

func (c *Cmd) parse(args []string, entry, inFlow, outFlow *flow.Step) error {
	helpIndex := c.helpIndex(args)
	nargsLen := c.getOptsAndArgs(args)

	if helpIndex >= 0 && helpIndex < nargsLen {
		c.PrintLongHelp()
		c.onError(errHelpRequested)
		return nil
	}

	// help was requested, but not for this command, skip the validation
	if helpIndex >= 0 {
		arg := args[nargsLen]
		for _, sub := range c.commands {
			if !sub.isAlias(arg) {
				continue
			}

			if err := sub.doInit(); err != nil {
				panic(err)
			}

			return sub.parse(args[nargsLen+1:], entry, nil, nil)
		}
		// impossible case
		panic("wut")
	}

	if err := c.fsm.Parse(args[:nargsLen]); err != nil {
		fmt.Fprintf(stdErr, "Error: %s\n", err.Error())
		c.PrintHelp()
		c.onError(err)
		return err
	}

	newInFlow := &flow.Step{
		Do:     c.Before,
		Error:  outFlow,
		Desc:   fmt.Sprintf("%s.Before", c.name),
		Exiter: exiter,
	}
	inFlow.Success = newInFlow

	newOutFlow := &flow.Step{
		Do:      c.After,
		Success: outFlow,
		Error:   outFlow,
		Desc:    fmt.Sprintf("%s.After", c.name),
		Exiter:  exiter,
	}

	args = args[nargsLen:]
	if len(args) == 0 {
		if c.Action != nil {
			newInFlow.Success = &flow.Step{
				Do:      c.Action,
				Success: newOutFlow,
				Error:   newOutFlow,
				Desc:    fmt.Sprintf("%s.Action", c.name),
				Exiter:  exiter,
			}

			entry.Run(nil)
			return nil
		}
		c.PrintHelp()
		c.onError(nil)
		return nil
	}

	arg := args[0]
	for _, sub := range c.commands {
		if sub.isAlias(arg) {
			if err := sub.doInit(); err != nil {
				panic(err)
			}
			return sub.parse(args[1:], entry, newInFlow, newOutFlow)
		}
	}

	var err error
	switch {
	case strings.HasPrefix(arg, "-"):
		err = fmt.Errorf("Error: illegal option %s", arg)
		fmt.Fprintln(stdErr, err.Error())
	default:
		err = fmt.Errorf("Error: illegal input %s", arg)
		fmt.Fprintln(stdErr, err.Error())
	}
	c.PrintHelp()
	c.onError(err)
	return err

}

func (c *Cmd) helpIndex(args []string) int {
	searchSet := []string{"-h", "--help"}
	for i, arg := range args {
		if arg == "--" {
			return -1
		}
		for _, searchArg := range searchSet {
			if arg == searchArg {
				return i
			}
		}
	}
	return -1
}

func (c *Cmd) isFirstItemAmong(args []string, searchSet []string) bool {
	if len(args) == 0 {
		return false
	}

	arg := args[0]
	for _, searchArg := range searchSet {
		if arg == searchArg {
			return true
		}
	}
	return false
}

func (c *Cmd) getOptsAndArgs(args []string) int {
	consumed := 0

	for _, arg := range args {
		for _, sub := range c.commands {
			if sub.isAlias(arg) {
				return consumed
			}
		}
		consumed++
	}
	return consumed
}

func (c *Cmd) isAlias(arg string) bool {
	for _, alias := range c.aliases {
		if arg == alias {
			return true
		}
	}
	return false
}

func joinStrings(parts ...string) string {
	res := ""
	for _, part := range parts {
		s := strings.TrimSpace(part)
		if s == "" {
			continue
		}
		if res != "" {
			res += " "
		}
		res += part
	}
	return res
}

func printTabbedRow(w io.Writer, s1 string, s2 string) {
	lines := strings.Split(s2, "\n")
	fmt.Fprintf(w, "  %s\t%s\n", s1, strings.TrimSpace(lines[0]))

	if len(lines) == 1 {
		return
	}

	for _, line := range lines[1:] {
		fmt.Fprintf(w, "  %s\t%s\n", "", strings.TrimSpace(line))
	}
}
