#!/bin/sh
# usage: run_o7.sh <spec-token-bound> <argv-length-bound> : bounded stand-in O7 against /repo's working tree
# (go test -overlay; nothing written into /repo). Prints one JSON line; when the test binary dies (stack overflow of a
# divergent search) the line reports the last input tried.
R=${VERIF_REPO:-/repo}
cd $R/internal/parser || exit 2
export GOFLAGS=-mod=mod GOPROXY=off GOSUMDB=off GOTOOLCHAIN=local
ov=$(mktemp /tmp/verif-o7.XXXXXX.json)
log=$(mktemp /tmp/verif-o7.XXXXXX.log)
printf '{"Replace":{"'"$R"'/internal/parser/zz_verif_o4_test.go":"/verif/bounded/o4_test.go","'"$R"'/internal/parser/zz_verif_o7_test.go":"/verif/bounded/o7_test.go"}}' > "$ov"
O7_N=${1:-3} O7_K=${2:-3} go test -overlay "$ov" -vet=off -count=1 -timeout ${O7_TIMEOUT:-900}s -v -run '^TestO7Relations$' . > "$log" 2>&1
line=$(grep -E '^\{"' "$log" | tail -1)
if [ -z "$line" ]; then
  last=$(grep -E '^O7 spec=' "$log" | tail -1 | sed 's/"/\\"/g')
  why=$(grep -m1 -E 'stack exceeds|panic:|fatal error' "$log" | sed 's/"/\\"/g')
  line="{\"name\":\"O7\",\"ok\":false,\"counterexample\":{\"problem\":\"the test binary died: $why\",\"last_input\":\"$last\"}}"
fi
echo "$line"
rm -f "$ov" "$log"
