#!/bin/sh
# usage: run_o10.sh <goroutines> <rounds> : bounded stand-in O10 (independence, determinism, race detector) on /repo's working tree
R=${VERIF_REPO:-/repo}
cd $R || exit 2
export GOFLAGS=-mod=mod GOPROXY=off GOSUMDB=off GOTOOLCHAIN=local CGO_ENABLED=1
ov=$(mktemp /tmp/verif-o10.XXXXXX.json)
printf '{"Replace":{"'"$R"'/zz_verif_o10_test.go":"/verif/bounded/o10_test.go"}}' > "$ov"
out=$(O10_G=${1:-8} O10_R=${2:-40} go test -race -overlay "$ov" -vet=off -count=1 -timeout ${O10_TIMEOUT:-600}s -v -run '^TestO10IndependenceAndDeterminism$' . 2>&1)
line=$(echo "$out" | grep -E '^\{"' | tail -1)
if echo "$out" | grep -q "WARNING: DATA RACE"; then
  where=$(echo "$out" | grep -A12 "WARNING: DATA RACE" | grep -E "^\s+github.com/jawher/mow.cli" | head -2 | tr '\n"' ' .' | cut -c1-300)
  line="{\"name\":\"O10\",\"ok\":false,\"counterexample\":{\"problem\":\"the race detector reports a data race between applications running in different goroutines\",\"where\":\"$where\"}}"
fi
[ -n "$line" ] || line="{\"name\":\"O10\",\"ok\":false,\"counterexample\":{\"problem\":\"the test binary produced no result\",\"output\":\"$(echo "$out" | tail -3 | tr '\n"' ' .' | cut -c1-300)\"}}"
echo "$line"
rm -f "$ov"
