package lexer

// Bounded stand-in O6 (DESIGN.md, C08/C18): lexer completeness. The contract of Tokenize pins the shape of the tokens it
// returns and the six character classes, not that every lexically well-formed spec is accepted. Here every string of
// at most N characters over an alphabet that exercises every token shape is given to the REAL Tokenize and to a reference
// lexer written from the token shapes of DESIGN.md 4.1 (maximal munch); they must agree on acceptance, on the token list
// (type, text, position) and, on rejection, the real error must carry a position inside the string.
// Injected with `go test -overlay`; never written into /repo.

import (
	"encoding/json"
	"fmt"
	"os"
	"strconv"
	"testing"
)

type o6tok struct {
	typ TokenType
	val string
	pos int
}

func o6letter(c byte) bool { return c >= 'a' && c <= 'z' || c >= 'A' && c <= 'Z' }
func o6upper(c byte) bool  { return c >= 'A' && c <= 'Z' }
func o6digit(c byte) bool  { return c >= '0' && c <= '9' }
func o6blank(c byte) bool  { return c == ' ' || c == '\t' }

func o6ref(s string) ([]o6tok, bool) {
	var toks []o6tok
	n := len(s)
	pos := 0
	for pos < n {
		c := s[pos]
		switch {
		case o6blank(c):
			pos++
		case c == '[':
			toks = append(toks, o6tok{TTOpenSq, "[", pos})
			pos++
		case c == ']':
			toks = append(toks, o6tok{TTCloseSq, "]", pos})
			pos++
		case c == '(':
			toks = append(toks, o6tok{TTOpenPar, "(", pos})
			pos++
		case c == ')':
			toks = append(toks, o6tok{TTClosePar, ")", pos})
			pos++
		case c == '|':
			toks = append(toks, o6tok{TTChoice, "|", pos})
			pos++
		case c == '.':
			if pos+3 > n || s[pos:pos+3] != "..." {
				return nil, false
			}
			toks = append(toks, o6tok{TTRep, "...", pos})
			pos += 3
		case c == '-':
			if pos+1 >= n {
				return nil, false
			}
			d := s[pos+1]
			switch {
			case o6letter(d):
				j := pos + 1
				for j < n && o6letter(s[j]) {
					j++
				}
				if j-pos == 2 {
					toks = append(toks, o6tok{TTShortOpt, s[pos:j], pos})
				} else {
					toks = append(toks, o6tok{TTOptSeq, s[pos+1 : j], pos})
				}
				if j < n && s[j] == '-' {
					return nil, false
				}
				pos = j
			case d == '-':
				if pos+2 == n || o6blank(s[pos+2]) {
					toks = append(toks, o6tok{TTDoubleDash, "--", pos})
					pos += 2
					continue
				}
				j := pos + 2
				if !(o6letter(s[j]) || o6digit(s[j]) || s[j] == '_') {
					return nil, false
				}
				for j < n && (o6letter(s[j]) || o6digit(s[j]) || s[j] == '_' || s[j] == '-') {
					j++
				}
				toks = append(toks, o6tok{TTLongOpt, s[pos:j], pos})
				pos = j
			default:
				return nil, false
			}
		case c == '=':
			if pos+1 >= n || s[pos+1] != '<' {
				return nil, false
			}
			k := pos + 2
			for k < n && s[k] != '>' {
				k++
			}
			if k >= n || k == pos+2 {
				return nil, false
			}
			toks = append(toks, o6tok{TTOptValue, s[pos : k+1], pos})
			pos = k + 1
		case o6upper(c):
			j := pos + 1
			for j < n && (o6upper(s[j]) || o6digit(s[j]) || s[j] == '_') {
				j++
			}
			typ := TTArg
			if s[pos:j] == "OPTIONS" {
				typ = TTOptions
			}
			toks = append(toks, o6tok{typ, s[pos:j], pos})
			pos = j
		default:
			return nil, false
		}
	}
	return toks, true
}

func TestO6LexerAgainstReference(t *testing.T) {
	bound := 5
	if v := os.Getenv("O6_N"); v != "" {
		bound, _ = strconv.Atoi(v)
	}
	alphabet := []byte("aB1_-.=<>[| \t")
	n, accepted := 0, 0
	var fail map[string]string
	buf := make([]byte, 0, bound)
	check := func(s string) {
		n++
		want, ok := o6ref(s)
		got, err := Tokenize(s)
		if (err == nil) != ok {
			fail = map[string]string{"spec": strconv.Quote(s), "problem": fmt.Sprintf("Tokenize accepts=%v, the reference lexer accepts=%v (%v)", err == nil, ok, err)}
			return
		}
		if err != nil {
			pe, isPE := err.(*ParseError)
			if !isPE || pe.Pos < 0 || pe.Pos > len(s) {
				fail = map[string]string{"spec": strconv.Quote(s), "problem": fmt.Sprintf("error without a position inside the string: %#v", err)}
			}
			return
		}
		accepted++
		if len(got) != len(want) {
			fail = map[string]string{"spec": strconv.Quote(s), "problem": fmt.Sprintf("%d tokens, the reference lexer has %d", len(got), len(want))}
			return
		}
		for i := range got {
			if got[i].Typ != want[i].typ || got[i].Val != want[i].val || got[i].Pos != want[i].pos {
				fail = map[string]string{"spec": strconv.Quote(s), "problem": fmt.Sprintf("token %d is (%v %q %d), the reference lexer has (%v %q %d)", i, got[i].Typ, got[i].Val, got[i].Pos, want[i].typ, want[i].val, want[i].pos)}
				return
			}
		}
	}
	var rec func()
	rec = func() {
		if fail != nil {
			return
		}
		check(string(buf))
		if len(buf) == bound {
			return
		}
		for _, c := range alphabet {
			buf = append(buf, c)
			rec()
			buf = buf[:len(buf)-1]
		}
	}
	rec()
	for _, s := range []string{"OPTIONS", "[OPTIONS] SRC...", "--sig-proxy=<bool> X_1", "-abc --x_y-z", "[-f|--force]\t--\tX", "OPTIONS1", "OPTION"} {
		if fail == nil {
			check(s)
		}
	}
	res := map[string]interface{}{"name": "O6", "ok": fail == nil, "length_bound": bound, "strings": n, "accepted": accepted, "alphabet": string(alphabet)}
	if fail != nil {
		res["counterexample"] = fail
	}
	out, _ := json.Marshal(res)
	fmt.Println(string(out))
	if fail != nil {
		t.Fatalf("O6: %v", fail)
	}
}
