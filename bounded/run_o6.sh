#!/bin/sh
# usage: run_o6.sh <length bound> : bounded stand-in O6 (lexer against a reference lexer) on /repo's working tree
R=${VERIF_REPO:-/repo}
cd $R/internal/lexer || exit 2
export GOFLAGS=-mod=mod GOPROXY=off GOSUMDB=off GOTOOLCHAIN=local
ov=$(mktemp /tmp/verif-o6.XXXXXX.json)
printf '{"Replace":{"'"$R"'/internal/lexer/zz_verif_o6_test.go":"/verif/bounded/o6_test.go"}}' > "$ov"
O6_N=${1:-5} go test -overlay "$ov" -vet=off -count=1 -timeout ${O6_TIMEOUT:-900}s -v -run '^TestO6LexerAgainstReference$' . 2>&1 | grep -E '^\{"' | tail -1
rm -f "$ov"
