#!/bin/sh
# usage: run_o4.sh <bound> : bounded stand-in O4 against /repo's working tree (go test -overlay; nothing written into /repo)
R=${VERIF_REPO:-/repo}
cd $R/internal/parser || exit 2
export GOFLAGS=-mod=mod GOPROXY=off GOSUMDB=off GOTOOLCHAIN=local
ov=$(mktemp /tmp/verif-o4.XXXXXX.json)
printf '{"Replace":{"'"$R"'/internal/parser/zz_verif_o4_test.go":"/verif/bounded/o4_test.go"}}' > "$ov"
O4_N=${1:-5} go test -overlay "$ov" -vet=off -count=1 -timeout ${O4_TIMEOUT:-1500}s -v -run '^TestO4GraphShape$' . 2>&1 | grep -E '^\{"' | tail -1
rm -f "$ov"
