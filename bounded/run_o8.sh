#!/bin/sh
# usage: run_o8.sh <depth bound> : bounded stand-in O8 (interceptor order over whole chains) on /repo's working tree
R=${VERIF_REPO:-/repo}
cd $R || exit 2
export GOFLAGS=-mod=mod GOPROXY=off GOSUMDB=off GOTOOLCHAIN=local
ov=$(mktemp /tmp/verif-o8.XXXXXX.json)
printf '{"Replace":{"'"$R"'/zz_verif_o8_test.go":"/verif/bounded/o8_test.go"}}' > "$ov"
out=$(O8_D=${1:-3} O8_DX=${2:-2} go test -overlay "$ov" -vet=off -count=1 -timeout ${O8_TIMEOUT:-600}s -v -run '^TestO8InterceptorOrder$' . 2>&1)
line=$(echo "$out" | grep -E '^\{"' | tail -1)
[ -n "$line" ] || line="{\"name\":\"O8\",\"ok\":false,\"counterexample\":{\"problem\":\"the test binary produced no result\",\"output\":\"$(echo "$out" | tail -3 | tr '\n"' ' .' | cut -c1-300)\"}}"
echo "$line"
rm -f "$ov"
