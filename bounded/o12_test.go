package cli

// Bounded stand-in O12 (DESIGN.md, C06, C15, C13): value precedence and SetByUser, end to end through the public API.
// For each of the seven built-in types, as option and as argument, for every listed environment configuration (unset,
// valid, first invalid then valid, all invalid, first empty then valid, blanks around list elements) and every command
// line (value absent, given once, given twice), the variable must end up holding the command-line value(s) if any
// (multi-valued: exactly those, single-valued: the last), else the first non-empty valid environment value, else the
// declared default; SetByUser must be true exactly when the command line supplied a value. The recorded open finding
// D6 (an invalid environment *list* wipes the default of a multi-valued int/float) is skipped by name.
// Injected with `go test -overlay`.

import (
	"encoding/json"
	"flag"
	"fmt"
	"io/ioutil"
	"os"
	"strings"
	"testing"
)

type o12kind struct {
	name           string
	multi          bool
	def            string   // rendered default
	declare        func(c *Cmd, asOpt bool, env string, set *bool) func() string
	valid, invalid string   // environment texts
	validShown     string   // how the valid env value is rendered
	cmd            []string // two command-line tokens
	cmdShown       []string
}

func TestO12PrecedenceAndSetByUser(t *testing.T) {
	oldOut, oldErr, oldExiter := stdOut, stdErr, exiter
	stdOut, stdErr = ioutil.Discard, ioutil.Discard
	exiter = func(int) {}
	defer func() { stdOut, stdErr, exiter = oldOut, oldErr, oldExiter }()

	kinds := []o12kind{
		{name: "bool", def: "false", valid: "true", invalid: "maybe", validShown: "true", cmd: []string{"true", "false"}, cmdShown: []string{"true", "false"},
			declare: func(c *Cmd, asOpt bool, env string, set *bool) func() string {
				var p *bool
				if asOpt {
					p = c.Bool(BoolOpt{Name: "o", EnvVar: env, SetByUser: set})
				} else {
					p = c.Bool(BoolArg{Name: "ARG", EnvVar: env, SetByUser: set})
				}
				return func() string { return fmt.Sprint(*p) }
			}},
		{name: "string", def: "dflt", valid: " from env ", invalid: "", validShown: " from env ", cmd: []string{"c1", "c 2"}, cmdShown: []string{"c1", "c 2"},
			declare: func(c *Cmd, asOpt bool, env string, set *bool) func() string {
				var p *string
				if asOpt {
					p = c.String(StringOpt{Name: "o", Value: "dflt", EnvVar: env, SetByUser: set})
				} else {
					p = c.String(StringArg{Name: "ARG", Value: "dflt", EnvVar: env, SetByUser: set})
				}
				return func() string { return *p }
			}},
		{name: "int", def: "7", valid: "42", invalid: "4x", validShown: "42", cmd: []string{"1", "-2"}, cmdShown: []string{"1", "-2"},
			declare: func(c *Cmd, asOpt bool, env string, set *bool) func() string {
				var p *int
				if asOpt {
					p = c.Int(IntOpt{Name: "o", Value: 7, EnvVar: env, SetByUser: set})
				} else {
					p = c.Int(IntArg{Name: "ARG", Value: 7, EnvVar: env, SetByUser: set})
				}
				return func() string { return fmt.Sprint(*p) }
			}},
		{name: "float64", def: "2.5", valid: "1e3", invalid: "1.5.2", validShown: "1000", cmd: []string{"0.5", "3"}, cmdShown: []string{"0.5", "3"},
			declare: func(c *Cmd, asOpt bool, env string, set *bool) func() string {
				var p *float64
				if asOpt {
					p = c.Float64(Float64Opt{Name: "o", Value: 2.5, EnvVar: env, SetByUser: set})
				} else {
					p = c.Float64(Float64Arg{Name: "ARG", Value: 2.5, EnvVar: env, SetByUser: set})
				}
				return func() string { return fmt.Sprint(*p) }
			}},
		{name: "strings", multi: true, def: "[d1 d2]", valid: " a , b,c ", invalid: "", validShown: "[a b c]", cmd: []string{"x", " y"}, cmdShown: []string{"x", " y"},
			declare: func(c *Cmd, asOpt bool, env string, set *bool) func() string {
				var p *[]string
				if asOpt {
					p = c.Strings(StringsOpt{Name: "o", Value: []string{"d1", "d2"}, EnvVar: env, SetByUser: set})
				} else {
					p = c.Strings(StringsArg{Name: "ARG", Value: []string{"d1", "d2"}, EnvVar: env, SetByUser: set})
				}
				return func() string { return fmt.Sprint(*p) }
			}},
		{name: "ints", multi: true, def: "[7 8]", valid: "1, 2 ,3", invalid: "1,x", validShown: "[1 2 3]", cmd: []string{"4", "5"}, cmdShown: []string{"4", "5"},
			declare: func(c *Cmd, asOpt bool, env string, set *bool) func() string {
				var p *[]int
				if asOpt {
					p = c.Ints(IntsOpt{Name: "o", Value: []int{7, 8}, EnvVar: env, SetByUser: set})
				} else {
					p = c.Ints(IntsArg{Name: "ARG", Value: []int{7, 8}, EnvVar: env, SetByUser: set})
				}
				return func() string { return fmt.Sprint(*p) }
			}},
		{name: "floats64", multi: true, def: "[2.5]", valid: "1.5,2", invalid: "1.5,zz", validShown: "[1.5 2]", cmd: []string{"0.25", "1e2"}, cmdShown: []string{"0.25", "100"},
			declare: func(c *Cmd, asOpt bool, env string, set *bool) func() string {
				var p *[]float64
				if asOpt {
					p = c.Floats64(Floats64Opt{Name: "o", Value: []float64{2.5}, EnvVar: env, SetByUser: set})
				} else {
					p = c.Floats64(Floats64Arg{Name: "ARG", Value: []float64{2.5}, EnvVar: env, SetByUser: set})
				}
				return func() string { return fmt.Sprint(*p) }
			}},
	}
	type envCfg struct {
		desc           string
		e1, e2         string // "": unset; "V": valid; "I": invalid; "E": set to the empty string
		list           string
	}
	envs := []envCfg{{"no variable listed", "", "", ""}, {"unset", "", "", "O12_E1"}, {"valid", "V", "", "O12_E1"}, {"invalid then valid", "I", "V", "O12_E1 O12_E2"},
		{"all invalid", "I", "I", "O12_E1  O12_E2"}, {"empty then valid", "E", "V", " O12_E1 O12_E2 "}, {"valid then invalid", "V", "I", "O12_E1 O12_E2"}, {"unset then valid", "", "V", "O12_E1 O12_E2"}}
	cases, skipped := 0, 0
	var fail map[string]string
	for _, k := range kinds {
		for _, asOpt := range []bool{true, false} {
			for _, ec := range envs {
				for ncmd := 0; ncmd <= 2; ncmd++ {
					if fail != nil {
						break
					}
					setenv := func(name, how string) {
						switch how {
						case "":
							os.Unsetenv(name)
						case "V":
							os.Setenv(name, k.valid)
						case "I":
							os.Setenv(name, k.invalid)
						case "E":
							os.Setenv(name, "")
						}
					}
					if k.invalid == "" && (ec.e1 == "I" || ec.e2 == "I") {
						continue // every string is a valid string: an "invalid" variable would be an empty one
					}
					setenv("O12_E1", ec.e1)
					setenv("O12_E2", ec.e2)
					// expected
					fromEnv := ""
					if ec.list != "" {
						if ec.e1 == "V" {
							fromEnv = k.validShown
						} else if ec.e2 == "V" && strings.Contains(ec.list, "O12_E2") {
							fromEnv = k.validShown
						}
					}
					usedInvalid := ec.list != "" && (ec.e1 == "I" || (ec.e2 == "I" && ec.e1 != "V"))
					want := k.def
					if fromEnv != "" {
						want = fromEnv
					}
					if k.multi && usedInvalid && fromEnv == "" && ncmd == 0 && k.name != "strings" {
						skipped++ // D6: the invalid list has cleared the default (recorded open finding)
						continue
					}
					var argv []string
					switch {
					case ncmd == 1:
						want = k.cmdShown[0]
						if k.multi {
							want = "[" + k.cmdShown[0] + "]"
						}
					case ncmd == 2:
						want = k.cmdShown[1]
						if k.multi {
							want = "[" + k.cmdShown[0] + " " + k.cmdShown[1] + "]"
						}
					}
					for i := 0; i < ncmd; i++ {
						if asOpt {
							argv = append(argv, "-o="+k.cmd[i])
						} else {
							argv = append(argv, k.cmd[i])
						}
					}
					cases++
					app := App("app", "")
					app.ErrorHandling = flag.ContinueOnError
					var set bool
					show := k.declare(app.Cmd, asOpt, ec.list, &set)
					if asOpt {
						app.Spec = "[-o]..."
					} else {
						app.Spec = "[-- ARG...]"
						if ncmd > 0 {
							argv = append([]string{"--"}, argv...)
						}
						if !k.multi {
							app.Spec = "[-- ARG] [ARG]"
						}
					}
					ran := false
					app.Action = func() { ran = true }
					err := app.Run(append([]string{"app"}, argv...))
					got := fmt.Sprintf("ran=%v err=%v value=%s setByUser=%v", ran, err != nil, show(), set)
					exp := fmt.Sprintf("ran=true err=false value=%s setByUser=%v", want, ncmd > 0)
					if got != exp {
						fail = map[string]string{"type": k.name, "as": map[bool]string{true: "option", false: "argument"}[asOpt], "environment": ec.desc + " (" + ec.list + ")", "argv": strings.Join(argv, " "), "got": got, "want": exp}
					}
				}
			}
		}
	}
	os.Unsetenv("O12_E1")
	os.Unsetenv("O12_E2")
	res := map[string]interface{}{"name": "O12", "ok": fail == nil, "cases": cases, "skipped_known_finding_D6": skipped}
	if fail != nil {
		res["counterexample"] = fail
	}
	out, _ := json.Marshal(res)
	fmt.Println(string(out))
	if fail != nil {
		t.Fatalf("O12: %v", fail)
	}
}
