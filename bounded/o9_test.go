package cli

// Bounded stand-in O9 (DESIGN.md, C17, C16, C14): the help text as a whole. The contracts pin every row format and every
// helper; that the printed text, end to end, is "usage line, description, every argument, every option, every visible
// command, nothing else, in this order" is not stated as one postcondition (sub-command initialisers run in between).
// Here the REAL help output (long form through `-h`, short form through PrintHelp) of every application assembled from
// small pools of option, argument and command declarations is compared, modulo column padding, with an independent
// rendering of the declarations. Injected with `go test -overlay`.

import (
	"bytes"
	"encoding/json"
	"flag"
	"fmt"
	"os"
	"regexp"
	"strings"
	"testing"
)

type o9decl struct {
	declare func(c *Cmd)
	row     string // expected row, blanks normalised
	name    string // for the default spec
}

var o9ws = regexp.MustCompile(`[ \t]+`)

func o9norm(s string) []string {
	var out []string
	for _, l := range strings.Split(s, "\n") {
		l = strings.TrimSpace(o9ws.ReplaceAllString(l, " "))
		if l != "" {
			out = append(out, l)
		}
	}
	return out
}

func TestO9HelpText(t *testing.T) {
	oldOut, oldErr, oldExiter := stdOut, stdErr, exiter
	defer func() { stdOut, stdErr, exiter = oldOut, oldErr, oldExiter }()
	exiter = func(int) {}
	os.Unsetenv("O9_E1")
	os.Unsetenv("O9_E2")

	opts := []o9decl{
		{func(c *Cmd) { c.BoolOpt("f", false, "force it") }, "-f force it", ""},
		{func(c *Cmd) { c.BoolOpt("force f", true, "") }, "-f, --force (default true)", ""},
		{func(c *Cmd) { c.StringOpt("out", "a.out", "the output") }, `--out the output (default "a.out")`, ""},
		{func(c *Cmd) { c.String(StringOpt{Name: "o output O other", Desc: "desc", EnvVar: "O9_E1 O9_E2"}) }, "-o, --output desc (env $O9_E1, $O9_E2)", ""},
		{func(c *Cmd) { c.String(StringOpt{Name: "s secret", Value: "hunter2", HideValue: true, EnvVar: "O9_E1"}) }, "-s, --secret (env $O9_E1)", ""},
		{func(c *Cmd) { c.IntOpt("n num", 0, "count") }, "-n, --num count (default 0)", ""},
		{func(c *Cmd) { c.StringsOpt("I", []string{"a", "b"}, "") }, `-I (default ["a", "b"])`, ""},
		{func(c *Cmd) { c.Ints(IntsOpt{Name: "p port", Desc: "ports", EnvVar: " "}) }, "-p, --port ports", ""},
		{func(c *Cmd) { c.BoolOpt("q Q quiet silent", false, "two shorts") }, "-q, --quiet two shorts", ""},
		{func(c *Cmd) { c.StringOpt("blank", " ", "") }, `--blank (default " ")`, ""},
		{func(c *Cmd) { c.Floats64Opt("r", []float64{0.123456789, 16777217}, "") }, "-r (default [0.123456789, 1.6777217e+07])", ""},
		{func(c *Cmd) { c.StringOpt("é enc", "50%", "pct") }, `--é pct (default "50%")`, ""},
	}
	args := []o9decl{
		{func(c *Cmd) { c.StringArg("SRC", "", "the source") }, "SRC the source", "SRC"},
		{func(c *Cmd) { c.String(StringArg{Name: "DST", Value: "out", EnvVar: "O9_E2"}) }, `DST (env $O9_E2) (default "out")`, "DST"},
		{func(c *Cmd) { c.IntArg("COUNT", 3, "how many") }, "COUNT how many (default 3)", "COUNT"},
		{func(c *Cmd) { c.Strings(StringsArg{Name: "FILES", Value: []string{"x"}, HideValue: true, Desc: "files"}) }, "FILES files", "FILES"},
		{func(c *Cmd) { var v []int; c.IntsPtr(&v, IntsArg{Name: "NUMS", Value: []int{1, 2}, HideValue: true, EnvVar: "\t"}) }, "NUMS", "NUMS"},
		{func(c *Cmd) { c.String(StringArg{Name: "FMT", Value: "%H:%M", Desc: "time format"}) }, `FMT time format (default "%H:%M")`, "FMT"},
	}
	type o9cmd struct {
		name, desc string
		hidden     bool
	}
	cmdSets := [][]o9cmd{nil, {{"run", "runs", false}}, {{"secret", "hidden one", true}}, {{"secret", "hidden", true}, {"run r", "runs", false}}, {{"alpha a al", "first", false}, {"ghost", "", true}, {"beta", "", false}}}
	type o9desc struct{ short, long string }
	descs := []o9desc{{"", ""}, {"short text", ""}, {"short text", "the long text"}, {"", "only long"}}

	var optSeqs, argSeqs [][]int
	optSeqs = append(optSeqs, nil)
	for i := range opts {
		optSeqs = append(optSeqs, []int{i})
		for j := range opts {
			if i != j && !(i <= 1 && j <= 1) { // 0 and 1 both declare -f
				optSeqs = append(optSeqs, []int{i, j})
			}
		}
	}
	argSeqs = append(argSeqs, nil)
	for i := range args {
		argSeqs = append(argSeqs, []int{i})
		for j := range args {
			if i != j {
				argSeqs = append(argSeqs, []int{i, j})
			}
		}
	}
	cases := 0
	var fail map[string]string
	for _, os_ := range optSeqs {
		for _, as := range argSeqs {
			for ci, cs := range cmdSets {
				for _, ds := range descs {
					for _, long := range []bool{false, true} {
						if fail != nil {
							break
						}
						cases++
						var buf bytes.Buffer
						stdErr, stdOut = &buf, &buf
						app := App("app", ds.short)
						app.ErrorHandling = flag.ContinueOnError
						app.LongDesc = ds.long
						var wantOpts, wantArgs, wantCmds, names []string
						for _, i := range os_ {
							opts[i].declare(app.Cmd)
							wantOpts = append(wantOpts, opts[i].row)
						}
						for _, i := range as {
							args[i].declare(app.Cmd)
							wantArgs = append(wantArgs, args[i].row)
							names = append(names, args[i].name)
						}
						for _, c := range cs {
							c := c
							app.Command(c.name, c.desc, func(sub *Cmd) { sub.Hidden = c.hidden; sub.Action = func() {} })
							if !c.hidden {
								wantCmds = append(wantCmds, strings.TrimSpace(strings.Join(strings.Fields(c.name), ", ")+" "+c.desc))
							}
						}
						app.Action = func() {}
						if long {
							app.Run([]string{"app", "-h"})
						} else {
							app.doInit()
							app.PrintHelp()
							buf.Reset() // printing help must not change what the next help shows
							app.PrintHelp()
						}
						usage := "Usage: app"
						spec := ""
						if len(os_) > 0 {
							spec = "[OPTIONS]"
						}
						for _, n := range names {
							spec = strings.TrimSpace(spec + " " + n)
						}
						if spec != "" {
							usage += " " + spec
						}
						if len(cs) > 0 {
							usage += " COMMAND [arg...]"
						}
						want := []string{usage}
						d := ds.short
						if long && ds.long != "" {
							d = ds.long
						}
						if d != "" {
							want = append(want, d)
						}
						if len(wantArgs) > 0 {
							want = append(append(want, "Arguments:"), wantArgs...)
						}
						if len(wantOpts) > 0 {
							want = append(append(want, "Options:"), wantOpts...)
						}
						if len(wantCmds) > 0 {
							want = append(append(want, "Commands:"), wantCmds...)
							want = append(want, "Run 'app COMMAND --help' for more information on a command.")
						}
						got := o9norm(buf.String())
						if strings.Join(got, "\n") != strings.Join(want, "\n") {
							fail = map[string]string{"options": fmt.Sprint(os_), "arguments": fmt.Sprint(as), "command_set": fmt.Sprint(ci), "desc/LongDesc": fmt.Sprintf("%q/%q", ds.short, ds.long), "long_form": fmt.Sprint(long),
								"got": strings.Join(got, " | "), "want": strings.Join(want, " | ")}
						}
					}
				}
			}
		}
	}
	res := map[string]interface{}{"name": "O9", "ok": fail == nil, "applications": cases}
	if fail != nil {
		res["counterexample"] = fail
	}
	out, _ := json.Marshal(res)
	stdOut, stdErr = oldOut, oldErr
	fmt.Println(string(out))
	if fail != nil {
		t.Fatalf("O9: %v", fail)
	}
}
