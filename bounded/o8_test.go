package cli

// Bounded stand-in O8 (DESIGN.md, C05, C04, C07): the order of interceptors over a whole command chain. The contracts
// prove Step.Run = run* and the wiring done by one level of Cmd.parse; the closed form over a chain of depth d (order(d))
// is a paper induction. Here it is checked on the REAL Cli.Run for every chain of depth 1..D, every choice of
// "returns / panics / calls Exit(n)" for each Before, the Action and each After (3^(2d+1) fault placements), and the
// three error policies: Befores from the root down, the remaining ones and the Action skipped after a failing Before,
// exactly the Afters of the levels whose Before completed, innermost first, each once, and the most recently raised
// value decides the end (exit once with its code, re-raise, or return nil). Injected with `go test -overlay`.

import (
	"encoding/json"
	"flag"
	"fmt"
	"io/ioutil"
	"os"
	"strconv"
	"strings"
	"testing"
)

type o8exit struct{ code int }

// the real exit function does not return: the hook unwinds to the test with this value
type o8stop struct{}

func TestO8InterceptorOrder(t *testing.T) {
	depth := 3
	if v := os.Getenv("O8_D"); v != "" {
		depth, _ = strconv.Atoi(v)
	}
	oldOut, oldErr, oldExiter := stdOut, stdErr, exiter
	stdOut, stdErr = ioutil.Discard, ioutil.Discard
	defer func() { stdOut, stdErr, exiter = oldOut, oldErr, oldExiter }()

	depthX := 2
	if v := os.Getenv("O8_DX"); v != "" {
		depthX, _ = strconv.Atoi(v)
	}
	cases := 0
	var fail map[string]string
	// behaviours: 0 returns, 1 panics with a string, 2 Exit(10+i), 3 absent (nil func), 4 Exit(0), 5 panics with an error value,
	// 6 runtime error (nil map write), 7 Exit(300), 8 panic(nil) (the module says go 1.13: recover() yields nil, so the callback
	// counts as having returned). The basic set {0,1,2} and the set {0,1,8} are walked up to depth O8_D, the first eight up to O8_DX.
	type round struct {
		d   int
		set []int
	}
	var rounds []round
	for d := 1; d <= depth; d++ {
		rounds = append(rounds, round{d, []int{0, 1, 2}})
	}
	for d := 1; d <= depthX; d++ {
		rounds = append(rounds, round{d, []int{0, 1, 2, 3, 4, 5, 6, 7}})
	}
	for d := 1; d <= depth; d++ {
		rounds = append(rounds, round{d, []int{0, 1, 8}})
	}
	for _, rd := range rounds {
		if fail != nil {
			break
		}
		d, nb := rd.d, len(rd.set)
		n := 2*d + 1 // Before_0..Before_{d-1}, Action, After_{d-1}..After_0
		total := 1
		for i := 0; i < n; i++ {
			total *= nb
		}
		for code := 0; code < total && fail == nil; code++ {
			beh := make([]int, n)
			c := code
			for i := range beh {
				beh[i] = rd.set[c%nb]
				c /= nb
			}
			for _, policy := range []flag.ErrorHandling{flag.ContinueOnError, flag.ExitOnError, flag.PanicOnError} {
				cases++
				var log []string
				var exits []int
				exiter = func(code int) { exits = append(exits, code); panic(o8stop{}) }
				mk := func(name string, b int, idx int) func() {
					if b == 3 {
						return nil
					}
					return func() {
						log = append(log, name)
						switch b {
						case 1:
							panic(fmt.Sprintf("panic@%s", name))
						case 2:
							Exit(10 + idx)
						case 4:
							Exit(0)
						case 5:
							panic(fmt.Errorf("error@%s", name))
						case 6:
							var m map[string]int
							m["x"] = 1
						case 7:
							Exit(300)
						case 8:
							panic(nil)
						}
					}
				}
				app := App("app", "")
				app.ErrorHandling = policy
				cur := app.Cmd
				argv := []string{"app"}
				var declare func(level int, c *Cmd)
				declare = func(level int, c *Cmd) {
					c.Before = mk(fmt.Sprintf("B%d", level), beh[level], level)
					c.After = mk(fmt.Sprintf("A%d", level), beh[n-1-level], n-1-level)
					if level == d-1 {
						c.Action = mk("ACT", beh[d], d)
						return
					}
					c.Command(fmt.Sprintf("c%d", level+1), "", func(sub *Cmd) { declare(level+1, sub) })
				}
				declare(0, cur)
				for l := 1; l < d; l++ {
					argv = append(argv, fmt.Sprintf("c%d", l))
				}
				var err error
				var raised interface{}
				func() {
					defer func() {
						raised = recover()
						if _, stopped := raised.(o8stop); stopped {
							raised = nil
						}
					}()
					err = app.Run(argv)
				}()
				// reference
				var want []string
				var pending interface{}
				// what a callback of behaviour b raises (nil: it returns, or is absent)
				raises := func(name string, b, idx int) interface{} {
					switch b {
					case 1:
						return fmt.Sprintf("panic@%s", name)
					case 2:
						return o8exit{10 + idx}
					case 4:
						return o8exit{0}
					case 5:
						return fmt.Sprintf("error@%s", name)
					case 6:
						return "assignment to entry in nil map"
					case 7:
						return o8exit{300}
					}
					return nil
				}
				wantExits, wantRaised := "[]", "<nil>"
				if beh[d] == 3 {
					// no Action: the help of the addressed command is printed and nothing runs; the policy applies to a nil error
					if policy == flag.ExitOnError {
						wantExits = "[2]"
					}
				} else {
					completed := 0
					ok := true
					for l := 0; l < d && ok; l++ {
						if beh[l] != 3 {
							want = append(want, fmt.Sprintf("B%d", l))
						}
						if r := raises(fmt.Sprintf("B%d", l), beh[l], l); r != nil {
							pending, ok = r, false
						} else {
							completed++
						}
					}
					if ok {
						want = append(want, "ACT")
						if r := raises("ACT", beh[d], d); r != nil {
							pending = r
						}
					}
					for l := completed - 1; l >= 0; l-- {
						if beh[n-1-l] != 3 {
							want = append(want, fmt.Sprintf("A%d", l))
						}
						if r := raises(fmt.Sprintf("A%d", l), beh[n-1-l], n-1-l); r != nil {
							pending = r
						}
					}
					switch p := pending.(type) {
					case o8exit:
						wantExits = fmt.Sprintf("[%d]", p.code)
					case string:
						wantRaised = p
					}
				}
				got := fmt.Sprintf("log=%v exits=%v raised=%v err=%v", log, exits, raised, err)
				exp := fmt.Sprintf("log=%v exits=%s raised=%s err=<nil>", want, wantExits, wantRaised)
				if got != exp {
					names := []string{"returns", "panics", "exits", "absent", "exits(0)", "panics(error)", "runtime-error", "exits(300)", "panics(nil)"}
					var desc []string
					for i, b := range beh {
						desc = append(desc, fmt.Sprintf("%d:%s", i, names[b]))
					}
					fail = map[string]string{"depth": strconv.Itoa(d), "behaviours (B0.., ACT, ..A0)": strings.Join(desc, " "), "policy": fmt.Sprint(policy), "argv": strings.Join(argv, " "), "got": got, "want": exp}
					break
				}
			}
		}
	}
	res := map[string]interface{}{"name": "O8", "ok": fail == nil, "depth_bound": depth, "cases": cases}
	if fail != nil {
		res["counterexample"] = fail
	}
	out, _ := json.Marshal(res)
	fmt.Println(string(out))
	if fail != nil {
		t.Fatalf("O8: %v", fail)
	}
}
