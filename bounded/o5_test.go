package parser

// Bounded stand-in O5 (DESIGN.md, C01/C03): the depth-first search of fsm.apply refuses to re-enter a state it has
// visited since it last consumed something. That this loses no sentence ("cut-cycles") is a paper lemma; here it is
// checked on every spec up to a bound and every command line up to a bound: the verdict of the REAL State.Parse is
// compared with plain reachability over configurations (state, remaining arguments, options rejected), computed with a
// visited set and the real matchers. Also checked: every Parse call returns (a divergence kills the test binary, which the
// runner reports). Environment-backed options (matched without consuming) are included: they are what used to diverge.
// Injected with `go test -overlay`; never written into /repo.

import (
	"encoding/json"
	"fmt"
	"os"
	"runtime/debug"
	"strconv"
	"strings"
	"sync/atomic"
	"testing"
	"time"

	"github.com/jawher/mow.cli/internal/container"
	"github.com/jawher/mow.cli/internal/fsm"
	"github.com/jawher/mow.cli/internal/lexer"
	"github.com/jawher/mow.cli/internal/matcher"
	"github.com/jawher/mow.cli/internal/values"
)

type o5cfg struct {
	s    *fsm.State
	args string
	rej  bool
}

func o5Reachable(start *fsm.State, argv []string) bool {
	seen := map[o5cfg]bool{}
	type item struct {
		s    *fsm.State
		args []string
		rej  bool
	}
	work := []item{{start, argv, false}}
	for len(work) > 0 {
		it := work[len(work)-1]
		work = work[:len(work)-1]
		args, rej := it.args, it.rej
		if len(args) > 0 && !rej && args[0] == "--" {
			rej, args = true, args[1:]
		}
		k := o5cfg{it.s, strings.Join(args, "\x00"), rej}
		if seen[k] {
			continue
		}
		seen[k] = true
		if it.s.Terminal && len(args) == 0 {
			return true
		}
		for _, tr := range it.s.Transitions {
			pc := matcher.NewParseContext()
			pc.RejectOptions = rej
			if ok, rem := tr.Matcher.Match(args, &pc); ok {
				work = append(work, item{tr.Next, rem, pc.RejectOptions})
			}
		}
	}
	return false
}

func TestO5PrunedSearch(t *testing.T) {
	debug.SetMaxStack(64 << 20)
	bound, alen := 4, 3
	if v := os.Getenv("O5_N"); v != "" {
		bound, _ = strconv.Atoi(v)
	}
	if v := os.Getenv("O5_ARGV"); v != "" {
		alen, _ = strconv.Atoi(v)
	}
	mk := func(names ...string) *container.Container {
		return &container.Container{Name: strings.TrimLeft(names[0], "-"), Names: names}
	}
	fa, fb, fo := mk("-a"), mk("-b"), mk("-o")
	var ba, bb bool
	var so []string
	fa.Value, fb.Value, fo.Value = values.NewBool(&ba, false), values.NewBool(&bb, false), values.NewStrings(&so, nil)
	ax, ay := &container.Container{Name: "X"}, &container.Container{Name: "Y"}
	var sx, sy []string
	ax.Value, ay.Value = values.NewStrings(&sx, nil), values.NewStrings(&sy, nil)
	params := Params{
		Options:    []*container.Container{fa, fb, fo},
		OptionsIdx: map[string]*container.Container{"-a": fa, "-b": fb, "-o": fo},
		Args:       []*container.Container{ax, ay},
		ArgsIdx:    map[string]*container.Container{"X": ax, "Y": ay},
	}
	argAlphabet := []string{"x", "-a", "-b", "-o", "-ab", "-ov", "--"}
	var argvs [][]string
	var gen func(cur []string)
	gen = func(cur []string) {
		argvs = append(argvs, append([]string(nil), cur...))
		if len(cur) == alen {
			return
		}
		for _, a := range argAlphabet {
			gen(append(cur, a))
		}
	}
	gen(nil)
	// watchdog: a single Parse must return promptly; otherwise report the input being tried and stop
	var current atomic.Value
	var started atomic.Int64
	current.Store("")
	stop := make(chan struct{})
	defer close(stop)
	go func() {
		for {
			select {
			case <-stop:
				return
			case <-time.After(200 * time.Millisecond):
				if s := started.Load(); s != 0 && time.Now().UnixNano()-s > int64(5*time.Second) {
					out, _ := json.Marshal(map[string]interface{}{"name": "O5", "ok": false, "counterexample": map[string]string{"input": current.Load().(string), "problem": "State.Parse (or the matchers it calls) does not return within 5s"}})
					fmt.Println(string(out))
					os.Exit(3)
				}
			}
		}
	}()
	specs, runs := 0, 0
	var fail map[string]string
	toks := make([]string, 0, bound)
	var rec func(depth int)
	rec = func(depth int) {
		if fail != nil {
			return
		}
		if depth > 0 {
			spec := strings.Join(toks, " ")
			ltoks, lerr := lexer.Tokenize(spec)
			if lerr == nil {
				params.Spec = spec
				if g, perr := Parse(ltoks, params); perr == nil {
					specs++
					for _, envA := range []bool{false, true} {
						for _, envO := range []bool{false, true} {
							fmt.Fprintf(os.Stderr, "O5 spec=%q envA=%v envO=%v\n", spec, envA, envO) // the last line names the culprit if the binary dies
							for _, argv := range argvs {
								fa.ValueSetFromEnv, fo.ValueSetFromEnv = envA, envO
								current.Store(fmt.Sprintf("spec=%q argv=%q envA=%v envO=%v", spec, argv, envA, envO))
								started.Store(time.Now().UnixNano())
								want := o5Reachable(g, argv)
								fa.ValueSetFromEnv, fo.ValueSetFromEnv = envA, envO
								got := g.Parse(argv) == nil
								started.Store(0)
								runs++
								if got != want {
									fail = map[string]string{"spec": spec, "argv": strings.Join(argv, " "), "env_backed": fmt.Sprintf("a=%v o=%v", envA, envO),
										"problem": fmt.Sprintf("State.Parse accepts=%v, reachability over configurations says %v", got, want)}
									return
								}
							}
						}
					}
				}
			}
		}
		if depth == bound {
			return
		}
		for _, a := range o4Alphabet {
			toks = append(toks, a)
			rec(depth + 1)
			toks = toks[:len(toks)-1]
		}
	}
	rec(0)
	res := map[string]interface{}{"name": "O5", "ok": fail == nil, "spec_tokens_bound": bound, "argv_length_bound": alen, "specs_compiled": specs, "parse_runs": runs,
		"argv_alphabet": argAlphabet, "spec_alphabet": o4Alphabet}
	if fail != nil {
		res["counterexample"] = fail
	}
	out, _ := json.Marshal(res)
	fmt.Println(string(out))
	if fail != nil {
		t.Fatalf("O5: %v", fail)
	}
}
