#!/bin/sh
# usage: run_o9.sh <depth bound> : bounded stand-in O9 (help text against an independent rendering) on /repo's working tree
R=${VERIF_REPO:-/repo}
cd $R || exit 2
export GOFLAGS=-mod=mod GOPROXY=off GOSUMDB=off GOTOOLCHAIN=local
ov=$(mktemp /tmp/verif-o9.XXXXXX.json)
printf '{"Replace":{"'"$R"'/zz_verif_o9_test.go":"/verif/bounded/o9_test.go"}}' > "$ov"
out=$(O9_D=${1:-3} O9_DX=${2:-2} go test -overlay "$ov" -vet=off -count=1 -timeout ${O9_TIMEOUT:-600}s -v -run '^TestO9HelpText$' . 2>&1)
line=$(echo "$out" | grep -E '^\{"' | tail -1)
[ -n "$line" ] || line="{\"name\":\"O9\",\"ok\":false,\"counterexample\":{\"problem\":\"the test binary produced no result\",\"output\":\"$(echo "$out" | tail -3 | tr '\n"' ' .' | cut -c1-300)\"}}"
echo "$line"
rm -f "$ov"
