package parser

// Bounded stand-in O4 (DESIGN.md, C01/C02/C03): for every token sequence up to a bound, compile it with the REAL lexer
// and parser, and compare the language of the resulting graph (an NFA over matcher labels) with the regular expression
// the spec denotes -- exact language equality, for command lines of every length, for the enumerated specs only.
// Also checked: acceptance by the real parser agrees with an independent reading of the EBNF; compilation terminates;
// no shortcut transition survives Prepare.  Injected with `go test -overlay`; never written into /repo.

import (
	"encoding/json"
	"fmt"
	"os"
	"sort"
	"strconv"
	"strings"
	"sync/atomic"
	"testing"
	"time"

	"github.com/jawher/mow.cli/internal/container"
	"github.com/jawher/mow.cli/internal/fsm"
	"github.com/jawher/mow.cli/internal/lexer"
	"github.com/jawher/mow.cli/internal/matcher"
	"github.com/jawher/mow.cli/internal/values"
)

// ---- reference: regular expressions over matcher labels -------------------------------------------------------------

type re struct {
	op   byte // 's' symbol, 'c' cat, 'a' alt, 'o' optional, 'p' plus, 'e' epsilon
	sym  string
	l, r *re
}

type refParser struct {
	toks []string
	pos  int
	rej  bool
	ok   bool
}

var o4Alphabet = []string{"X", "Y", "-a", "-b", "-o", "-ab", "OPTIONS", "--", "[", "]", "(", ")", "|", "..."}

func isAtomStart(t string) bool {
	switch t {
	case "]", ")", "|", "...":
		return false
	}
	return true
}

func (p *refParser) peek() string {
	if p.pos < len(p.toks) {
		return p.toks[p.pos]
	}
	return ""
}

func (p *refParser) seq(required bool) *re {
	var res *re = &re{op: 'e'}
	n := 0
	for p.ok && p.pos < len(p.toks) && isAtomStart(p.peek()) {
		c := p.choice()
		res = &re{op: 'c', l: res, r: c}
		n++
	}
	if required && n == 0 {
		p.ok = false
	}
	return res
}

func (p *refParser) choice() *re {
	a := p.atom()
	for p.ok && p.peek() == "|" {
		p.pos++
		b := p.atom()
		a = &re{op: 'a', l: a, r: b}
	}
	return a
}

func (p *refParser) atom() *re {
	if p.pos >= len(p.toks) {
		p.ok = false
		return &re{op: 'e'}
	}
	t := p.toks[p.pos]
	var r *re
	switch t {
	case "X", "Y":
		p.pos++
		r = &re{op: 's', sym: t}
	case "-a", "-b", "-o":
		if p.rej {
			p.ok = false
			return &re{op: 'e'}
		}
		p.pos++
		r = &re{op: 's', sym: t}
	case "-ab":
		if p.rej {
			p.ok = false
			return &re{op: 'e'}
		}
		p.pos++
		r = &re{op: 's', sym: "-ab"}
	case "OPTIONS":
		if p.rej {
			p.ok = false
			return &re{op: 'e'}
		}
		p.pos++
		r = &re{op: 's', sym: "-abo"}
	case "--":
		p.pos++
		p.rej = true
		return &re{op: 's', sym: "--"} // no repetition after --
	case "(":
		p.pos++
		r = p.seq(true)
		if p.peek() != ")" {
			p.ok = false
			return r
		}
		p.pos++
	case "[":
		p.pos++
		r = &re{op: 'o', l: p.seq(true)}
		if p.peek() != "]" {
			p.ok = false
			return r
		}
		p.pos++
	default:
		p.ok = false
		return &re{op: 'e'}
	}
	if p.ok && p.peek() == "..." {
		p.pos++
		r = &re{op: 'p', l: r}
	}
	return r
}

// ---- NFAs and equivalence ---------------------------------------------------------------------------------------------

type nfa struct {
	n      int
	eps    map[int][]int
	tr     map[int]map[string][]int
	start  int
	accept map[int]bool
}

func newNFA() *nfa {
	return &nfa{eps: map[int][]int{}, tr: map[int]map[string][]int{}, accept: map[int]bool{}}
}
func (a *nfa) state() int { a.n++; return a.n - 1 }
func (a *nfa) edge(s int, sym string, t int) {
	if a.tr[s] == nil {
		a.tr[s] = map[string][]int{}
	}
	a.tr[s][sym] = append(a.tr[s][sym], t)
}

func (a *nfa) build(r *re) (int, int) {
	s, e := a.state(), a.state()
	switch r.op {
	case 'e':
		a.eps[s] = append(a.eps[s], e)
	case 's':
		a.edge(s, r.sym, e)
	case 'c':
		ls, le := a.build(r.l)
		rs, re2 := a.build(r.r)
		a.eps[s] = append(a.eps[s], ls)
		a.eps[le] = append(a.eps[le], rs)
		a.eps[re2] = append(a.eps[re2], e)
	case 'a':
		ls, le := a.build(r.l)
		rs, re2 := a.build(r.r)
		a.eps[s] = append(a.eps[s], ls, rs)
		a.eps[le] = append(a.eps[le], e)
		a.eps[re2] = append(a.eps[re2], e)
	case 'o':
		ls, le := a.build(r.l)
		a.eps[s] = append(a.eps[s], ls, e)
		a.eps[le] = append(a.eps[le], e)
	case 'p':
		ls, le := a.build(r.l)
		a.eps[s] = append(a.eps[s], ls)
		a.eps[le] = append(a.eps[le], e, ls)
	}
	return s, e
}

func (a *nfa) closure(set map[int]bool) map[int]bool {
	stack := []int{}
	for s := range set {
		stack = append(stack, s)
	}
	for len(stack) > 0 {
		s := stack[len(stack)-1]
		stack = stack[:len(stack)-1]
		for _, t := range a.eps[s] {
			if !set[t] {
				set[t] = true
				stack = append(stack, t)
			}
		}
	}
	return set
}

func key(set map[int]bool) string {
	var ks []int
	for k := range set {
		ks = append(ks, k)
	}
	sort.Ints(ks)
	var sb strings.Builder
	for _, k := range ks {
		sb.WriteString(strconv.Itoa(k))
		sb.WriteByte(',')
	}
	return sb.String()
}

func (a *nfa) step(set map[int]bool, sym string) map[int]bool {
	out := map[int]bool{}
	for s := range set {
		for _, t := range a.tr[s][sym] {
			out[t] = true
		}
	}
	return a.closure(out)
}

func (a *nfa) accepting(set map[int]bool) bool {
	for s := range set {
		if a.accept[s] {
			return true
		}
	}
	return false
}

// equivalent: BFS over pairs of subset states; returns a distinguishing word when the languages differ
func equivalent(a, b *nfa, alphabet []string) (bool, []string) {
	type pair struct {
		x, y map[int]bool
		w    []string
	}
	sa := a.closure(map[int]bool{a.start: true})
	sb := b.closure(map[int]bool{b.start: true})
	seen := map[string]bool{}
	queue := []pair{{sa, sb, nil}}
	for len(queue) > 0 {
		p := queue[0]
		queue = queue[1:]
		k := key(p.x) + "|" + key(p.y)
		if seen[k] {
			continue
		}
		seen[k] = true
		if a.accepting(p.x) != b.accepting(p.y) {
			return false, p.w
		}
		for _, sym := range alphabet {
			nx, ny := a.step(p.x, sym), b.step(p.y, sym)
			if len(nx) == 0 && len(ny) == 0 {
				continue
			}
			w := append(append([]string(nil), p.w...), sym)
			queue = append(queue, pair{nx, ny, w})
		}
	}
	return true, nil
}

func graphNFA(start *fsm.State) (*nfa, string) {
	a := newNFA()
	ids := map[*fsm.State]int{}
	var visit func(s *fsm.State) int
	problem := ""
	visit = func(s *fsm.State) int {
		if id, ok := ids[s]; ok {
			return id
		}
		id := a.state()
		ids[s] = id
		if s.Terminal {
			a.accept[id] = true
		}
		for i, tr := range s.Transitions {
			if matcher.IsShortcut(tr.Matcher) {
				problem = "a shortcut transition survives Prepare"
			}
			// apply tries the transitions in order: Prepare leaves them sorted by the matchers' priority
			if i > 0 && s.Transitions[i-1].Matcher.Priority() > tr.Matcher.Priority() && problem == "" {
				problem = fmt.Sprintf("the transitions of a state are not in priority order after Prepare (%v before %v)", s.Transitions[i-1].Matcher, tr.Matcher)
			}
			t := visit(tr.Next)
			a.edge(id, fmt.Sprint(tr.Matcher), t)
		}
		return id
	}
	a.start = visit(start)
	return a, problem
}

// ---- the enumeration -------------------------------------------------------------------------------------------------------

func TestO4GraphShape(t *testing.T) {
	bound := 5
	if v := os.Getenv("O4_N"); v != "" {
		bound, _ = strconv.Atoi(v)
	}
	mk := func(names ...string) *container.Container {
		return &container.Container{Name: strings.TrimLeft(names[0], "-"), Names: names}
	}
	fa, fb, fo := mk("-a"), mk("-b"), mk("-o")
	var ba, bb bool
	var so string
	fa.Value, fb.Value, fo.Value = values.NewBool(&ba, false), values.NewBool(&bb, false), values.NewString(&so, "")
	ax, ay := &container.Container{Name: "X"}, &container.Container{Name: "Y"}
	var sx, sy []string
	ax.Value, ay.Value = values.NewStrings(&sx, nil), values.NewStrings(&sy, nil)
	params := Params{
		Options:    []*container.Container{fa, fb, fo},
		OptionsIdx: map[string]*container.Container{"-a": fa, "-b": fb, "-o": fo},
		Args:       []*container.Container{ax, ay},
		ArgsIdx:    map[string]*container.Container{"X": ax, "Y": ay},
	}
	labels := []string{"X", "Y", "-a", "-b", "-o", "-ab", "-abo", "--"}

	var current atomic.Value
	var started atomic.Int64
	current.Store("")
	done := make(chan struct{})
	defer close(done)
	go func() { // watchdog: a single compilation must finish promptly
		for {
			select {
			case <-done:
				return
			case <-time.After(200 * time.Millisecond):
				if s := started.Load(); s != 0 && time.Now().UnixNano()-s > int64(3*time.Second) {
					out, _ := json.Marshal(map[string]interface{}{"name": "O4", "ok": false, "bound": bound, "counterexample": map[string]string{"spec": current.Load().(string), "problem": "compilation does not terminate within 3s"}})
					fmt.Println(string(out))
					os.Exit(3)
				}
			}
		}
	}()

	enumerated, compiled, compared := 0, 0, 0
	var fail map[string]string
	toks := make([]string, 0, bound)
	var rec func(depth int)
	rec = func(depth int) {
		if fail != nil {
			return
		}
		if depth > 0 {
			enumerated++
			spec := strings.Join(toks, " ")
			ref := &refParser{toks: toks, ok: true}
			r := ref.seq(false)
			refOK := ref.ok && ref.pos == len(toks)
			current.Store(spec)
			started.Store(time.Now().UnixNano())
			ltoks, lerr := lexer.Tokenize(spec)
			var g *fsm.State
			var perr error
			if lerr == nil {
				params.Spec = spec
				g, perr = Parse(ltoks, params)
			}
			started.Store(0)
			realOK := lerr == nil && perr == nil
			if realOK != refOK {
				fail = map[string]string{"spec": spec, "problem": fmt.Sprintf("well-formedness disagrees: real parser accepts=%v, EBNF reading accepts=%v", realOK, refOK)}
				return
			}
			if realOK {
				compiled++
				ga, problem := graphNFA(g)
				if problem != "" {
					fail = map[string]string{"spec": spec, "problem": problem}
					return
				}
				ra := newNFA()
				s, e := ra.build(r)
				ra.start = s
				ra.accept[e] = true
				if ok, w := equivalent(ga, ra, labels); !ok {
					fail = map[string]string{"spec": spec, "problem": "the graph's language differs from the spec's regular expression", "distinguishing_word": strings.Join(w, " ")}
					return
				}
				compared++
			}
		}
		if depth == bound {
			return
		}
		for _, a := range o4Alphabet {
			toks = append(toks, a)
			rec(depth + 1)
			toks = toks[:len(toks)-1]
		}
	}
	rec(0)
	// scaling: a few long specs of simple shape (the enumeration above stops at `bound` tokens) must compile, within the same
	// 3 s watchdog and without a crash: a row of optional groups (compilation time must not double per group) and long rows of atoms
	long := []string{strings.Repeat("[-a] [-b] [X] ", 12), strings.Repeat("X ", 3000), strings.Repeat("[X] ", 400), strings.Repeat("(-a | -b | X) ", 40), strings.Repeat("X... ", 300)}
	for _, spec := range long {
		if fail != nil {
			break
		}
		func() {
			defer func() {
				if r := recover(); r != nil {
					fail = map[string]string{"spec": fmt.Sprintf("%.40s... (%d characters)", spec, len(spec)), "problem": fmt.Sprintf("compiling a long spec crashes: %v", r)}
				}
			}()
			current.Store(fmt.Sprintf("%.40s... (%d characters)", spec, len(spec)))
			started.Store(time.Now().UnixNano())
			ltoks, lerr := lexer.Tokenize(spec)
			var perr error
			if lerr == nil {
				params.Spec = spec
				_, perr = Parse(ltoks, params)
			}
			started.Store(0)
			if lerr != nil || perr != nil {
				fail = map[string]string{"spec": fmt.Sprintf("%.40s... (%d characters)", spec, len(spec)), "problem": fmt.Sprintf("a long well-formed spec is rejected: %v %v", lerr, perr)}
			}
		}()
	}
	res := map[string]interface{}{"name": "O4", "ok": fail == nil, "bound": bound, "long_specs_compiled": len(long), "specs_enumerated": enumerated, "specs_compiled": compiled, "languages_compared": compared,
		"alphabet": o4Alphabet}
	if fail != nil {
		res["counterexample"] = fail
	}
	out, _ := json.Marshal(res)
	fmt.Println(string(out))
	if fail != nil {
		t.Fatalf("O4: %v", fail)
	}
}
