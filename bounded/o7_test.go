package parser

// Bounded stand-in O7 (DESIGN.md, C02, C06, C09-C12): the whole-command-line relations that the paper lifting lemma carries from the
// proved per-matcher facts to State.Parse, checked on the REAL Parse for every spec up to a bound and every command line
// built from at most K option/argument occurrences:
//   C02  an accepted command line binds exactly what was written (flags iff present, the option's values in order and
//        in place of the environment value, every positional exactly once and in order);
//   C11  swapping two adjacent occurrences of different options changes neither acceptance nor any bound value;
//   C10  re-spelling an occurrence (-a / --along / -a=true / --along=true; -o v / -o=v / -ov / --out v / --out=v) and
//        folding adjacent short options (-a -b / -ab; -a -o v / -ao v / -aov) changes nothing;
//   C09  inserting `--` anywhere from the start to the end of the trailing block of positional arguments changes nothing
//        (`--`-free specs, no environment-backed option: the scope the property states);
//   C12  giving -o a valid environment value keeps every accepted command line accepted, with the same values for the
//        options written on the command line (the value clause for `--`-free specs, as the property states).
// Injected with `go test -overlay`; never written into /repo.

import (
	"encoding/json"
	"fmt"
	"os"
	"strconv"
	"strings"
	"testing"

	"github.com/jawher/mow.cli/internal/container"
	"github.com/jawher/mow.cli/internal/fsm"
	"github.com/jawher/mow.cli/internal/lexer"
	"github.com/jawher/mow.cli/internal/values"
)

type o7occ struct {
	kind byte   // 'a', 'b' flags; 'o' valued option; 'p' positional
	val  string // value of o / text of p
}

// canonical spelling: one occurrence per token group, short names
func o7render(occ []o7occ) []string {
	var out []string
	for _, c := range occ {
		switch c.kind {
		case 'a', 'b':
			out = append(out, "-"+string(c.kind))
		case 'o':
			out = append(out, "-o", c.val)
		case 'p':
			out = append(out, c.val)
		}
	}
	return out
}

// all spellings of one occurrence
func o7spellings(c o7occ) [][]string {
	switch c.kind {
	case 'a':
		return [][]string{{"-a"}, {"--along"}, {"-a=true"}, {"--along=true"}}
	case 'b':
		return [][]string{{"-b"}, {"--blong"}, {"-b=true"}, {"--blong=true"}}
	case 'o':
		return [][]string{{"-o", c.val}, {"-o=" + c.val}, {"-o" + c.val}, {"--out", c.val}, {"--out=" + c.val}}
	}
	return [][]string{{c.val}}
}

type o7env struct {
	fa, fb, fo, ax, ay *container.Container
	ba, bb             *bool
	so, sx, sy         *[]string
}

func (e *o7env) run(g *fsm.State, argv []string, envO bool) string {
	*e.ba, *e.bb = false, false
	*e.so, *e.sx, *e.sy = nil, nil, nil
	e.fo.ValueSetFromEnv = envO
	if envO {
		*e.so = []string{"E"}
	}
	if err := g.Parse(argv); err != nil {
		return "rejected"
	}
	return fmt.Sprintf("a=%v b=%v o=%q x=%q y=%q", *e.ba, *e.bb, *e.so, *e.sx, *e.sy)
}

func TestO7Relations(t *testing.T) {
	bound, occBound := 4, 3
	if v := os.Getenv("O7_N"); v != "" {
		bound, _ = strconv.Atoi(v)
	}
	if v := os.Getenv("O7_K"); v != "" {
		occBound, _ = strconv.Atoi(v)
	}
	mk := func(names ...string) *container.Container {
		return &container.Container{Name: strings.TrimLeft(names[0], "-"), Names: names}
	}
	e := &o7env{fa: mk("-a", "--along"), fb: mk("-b", "--blong"), fo: mk("-o", "--out"), ax: &container.Container{Name: "X"}, ay: &container.Container{Name: "Y"}}
	var ba, bb bool
	var so, sx, sy []string
	e.ba, e.bb, e.so, e.sx, e.sy = &ba, &bb, &so, &sx, &sy
	e.fa.Value, e.fb.Value, e.fo.Value = values.NewBool(&ba, false), values.NewBool(&bb, false), values.NewStrings(&so, nil)
	e.ax.Value, e.ay.Value = values.NewStrings(&sx, nil), values.NewStrings(&sy, nil)
	params := Params{
		Options:    []*container.Container{e.fa, e.fb, e.fo},
		OptionsIdx: map[string]*container.Container{"-a": e.fa, "--along": e.fa, "-b": e.fb, "--blong": e.fb, "-o": e.fo, "--out": e.fo},
		Args:       []*container.Container{e.ax, e.ay},
		ArgsIdx:    map[string]*container.Container{"X": e.ax, "Y": e.ay},
	}
	items := []o7occ{{'a', ""}, {'b', ""}, {'o', "v"}, {'o', "w"}, {'p', "x"}, {'p', "y"}}
	var lines [][]o7occ
	var gen func(cur []o7occ)
	gen = func(cur []o7occ) {
		lines = append(lines, append([]o7occ(nil), cur...))
		if len(cur) == occBound {
			return
		}
		for _, it := range items {
			gen(append(cur, it))
		}
	}
	gen(nil)

	specs, checks := 0, 0
	var fail map[string]string
	report := func(prop, spec string, a1, a2 []string, r1, r2 string, env string) {
		fail = map[string]string{"property": prop, "spec": spec, "argv": strings.Join(a1, " "), "variant": strings.Join(a2, " "), "outcome": r1, "variant_outcome": r2, "env": env}
	}
	toks := make([]string, 0, bound)
	var rec func(depth int)
	rec = func(depth int) {
		if fail != nil {
			return
		}
		if depth > 0 {
			spec := strings.Join(toks, " ")
			ltoks, lerr := lexer.Tokenize(spec)
			if lerr == nil {
				params.Spec = spec
				// after a spec-level `--` a dash token is a positional, not an option occurrence: the relations are stated for
				// occurrences, so only `--`-free specs are walked
				if g, perr := Parse(ltoks, params); perr == nil && !strings.Contains(spec, "--") {
					specs++
					for _, envO := range []bool{false, true} {
						envs := fmt.Sprintf("o env-backed=%v", envO)
						for _, occ := range lines {
							base := o7render(occ)
							r0 := e.run(g, base, envO)
							checks++
							// C02/C06: an accepted line binds exactly what was written: flags iff present, the option's values in
							// order (replacing, not extending, the environment value), every positional exactly once and in order
							if r0 != "rejected" {
								var wantO, pos []string
								wantA, wantB := false, false
								for _, c := range occ {
									switch c.kind {
									case 'a':
										wantA = true
									case 'b':
										wantB = true
									case 'o':
										wantO = append(wantO, c.val)
									case 'p':
										pos = append(pos, c.val)
									}
								}
								if len(wantO) == 0 && envO {
									wantO = []string{"E"}
								}
								e.run(g, base, envO) // rebinds the variables for inspection
								okBind := *e.ba == wantA && *e.bb == wantB && strings.Join(*e.so, "\x00") == strings.Join(wantO, "\x00") && len(*e.so) == len(wantO)
								// positionals: some split of pos into two order-preserving subsequences equals (X, Y)
								split := false
								for mask := 0; mask < 1<<uint(len(pos)) && !split; mask++ {
									var xs, ys []string
									for i, v := range pos {
										if mask&(1<<uint(i)) != 0 {
											xs = append(xs, v)
										} else {
											ys = append(ys, v)
										}
									}
									split = strings.Join(xs, "\x00") == strings.Join(*e.sx, "\x00") && len(xs) == len(*e.sx) && strings.Join(ys, "\x00") == strings.Join(*e.sy, "\x00") && len(ys) == len(*e.sy)
								}
								if !okBind || !split {
									report("C02", spec, base, base, r0, fmt.Sprintf("written: a=%v b=%v o=%q positionals=%q", wantA, wantB, wantO, pos), envs)
									return
								}
							}
							// C11: swap adjacent occurrences of different options
							for i := 0; i+1 < len(occ); i++ {
								if occ[i].kind == 'p' || occ[i+1].kind == 'p' || occ[i].kind == occ[i+1].kind {
									continue
								}
								sw := append([]o7occ(nil), occ...)
								sw[i], sw[i+1] = sw[i+1], sw[i]
								v := o7render(sw)
								if r := e.run(g, v, envO); r != r0 {
									report("C11", spec, base, v, r0, r, envs)
									return
								}
							}
							// C10: re-spell one occurrence
							for i := range occ {
								if occ[i].kind == 'p' {
									continue
								}
								for _, sp := range o7spellings(occ[i]) {
									var v []string
									v = append(v, o7render(occ[:i])...)
									v = append(v, sp...)
									v = append(v, o7render(occ[i+1:])...)
									if r := e.run(g, v, envO); r != r0 {
										report("C10", spec, base, v, r0, r, envs)
										return
									}
								}
							}
							// C10: fold two adjacent short occurrences
							for i := 0; i+1 < len(occ); i++ {
								if occ[i].kind == 'p' || occ[i+1].kind == 'p' || occ[i].kind == 'o' {
									continue
								}
								var folded []string
								if occ[i+1].kind == 'o' {
									folded = []string{"-" + string(occ[i].kind) + "o", occ[i+1].val}
								} else {
									folded = []string{"-" + string(occ[i].kind) + string(occ[i+1].kind)}
								}
								var v []string
								v = append(v, o7render(occ[:i])...)
								v = append(v, folded...)
								v = append(v, o7render(occ[i+2:])...)
								if r := e.run(g, v, envO); r != r0 {
									report("C10", spec, base, v, r0, r, envs)
									return
								}
							}
							// C09: insert `--` inside or around the trailing block of positionals
							k := len(occ)
							for k > 0 && occ[k-1].kind == 'p' {
								k--
							}
							for at := k; at <= len(occ) && !envO && !strings.Contains(spec, "--"); at++ {
								var v []string
								v = append(v, o7render(occ[:at])...)
								v = append(v, "--")
								v = append(v, o7render(occ[at:])...)
								if r := e.run(g, v, envO); r != r0 {
									report("C09", spec, base, v, r0, r, envs)
									return
								}
							}
							// C12: the environment value only helps
							if !envO && r0 != "rejected" {
								r1 := e.run(g, base, true)
								hasO := false
								for _, c := range occ {
									if c.kind == 'o' {
										hasO = true
									}
								}
								ok := r1 != "rejected"
								if ok && hasO && r1 != r0 && !strings.Contains(spec, "--") {
									ok = false
								}
								if !ok {
									report("C12", spec, base, base, r0, r1, "without / with an environment value for o")
									return
								}
							}
						}
					}
				}
			}
		}
		if depth == bound {
			return
		}
		for _, a := range o4Alphabet {
			toks = append(toks, a)
			rec(depth + 1)
			toks = toks[:len(toks)-1]
		}
	}
	rec(0)
	res := map[string]interface{}{"name": "O7", "ok": fail == nil, "spec_tokens_bound": bound, "occurrences_bound": occBound, "specs_compiled": specs, "command_lines": checks}
	if fail != nil {
		res["counterexample"] = fail
	}
	out, _ := json.Marshal(res)
	fmt.Println(string(out))
	if fail != nil {
		t.Fatalf("O7: %v", fail)
	}
}
