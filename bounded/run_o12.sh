#!/bin/sh
# usage: run_o12.sh <depth bound> : bounded stand-in O12 (value precedence and SetByUser) on /repo's working tree
R=${VERIF_REPO:-/repo}
cd $R || exit 2
export GOFLAGS=-mod=mod GOPROXY=off GOSUMDB=off GOTOOLCHAIN=local
ov=$(mktemp /tmp/verif-o12.XXXXXX.json)
printf '{"Replace":{"'"$R"'/zz_verif_o12_test.go":"/verif/bounded/o12_test.go"}}' > "$ov"
out=$(O12_D=${1:-3} O12_DX=${2:-2} go test -overlay "$ov" -vet=off -count=1 -timeout ${O12_TIMEOUT:-600}s -v -run '^TestO12PrecedenceAndSetByUser$' . 2>&1)
line=$(echo "$out" | grep -E '^\{"' | tail -1)
[ -n "$line" ] || line="{\"name\":\"O12\",\"ok\":false,\"counterexample\":{\"problem\":\"the test binary produced no result\",\"output\":\"$(echo "$out" | tail -3 | tr '\n"' ' .' | cut -c1-300)\"}}"
echo "$line"
rm -f "$ov"
