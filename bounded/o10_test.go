package cli

// Bounded stand-in O10 (DESIGN.md, C20): independence and determinism. The frame sweep proves that no library function
// writes package-level state or starts goroutines; schedules and the absence of data races are not decided by it. Here a
// set of applications is rebuilt and rerun many times sequentially (same declarations, same argv => same outcome, also
// after other applications ran in between, also when a default slice is shared by two runs) and then concurrently in G
// goroutines under the race detector (`go test -race`): every concurrent outcome must equal the sequential one and the
// detector must stay silent. Injected with `go test -overlay`.

import (
	"encoding/json"
	"flag"
	"fmt"
	"io/ioutil"
	"os"
	"strconv"
	"strings"
	"sync"
	"testing"
)

type o10case struct {
	spec string
	argv []string
}

var o10cases = []o10case{
	{"[-f] [-g] [-n] SRC...", []string{"-fg", "-n", "5", "a", "b"}},
	{"[OPTIONS] [SRC] [DST]", []string{"-n", "7", "x"}},
	{"[OPTIONS] SRC...", []string{"-vvv", "x", "-f"}},
	{"[-f | -g]... SRC [DST]", []string{"-f", "-g", "-f", "a", "b"}},
	{"(-n SRC)... [DST]", []string{"-n", "1", "a", "-n", "2", "b"}},
	{"[-o...] [SRC] [DST] [-f]", []string{"-o", "u", "-ov", "x"}},
	{"[-abc] [SRC]", []string{"-cba", "x"}},
	{"[OPTIONS] -- SRC...", []string{"-f", "--", "-g", "--"}},
	{"[-f] [-g] [-a] [-b] [-c] [-n] [-o] [SRC] [DST]", []string{"x"}},
	{"SRC", []string{"a", "b"}},
	{"-n", []string{"-n", "abc"}},
	{"[-n] SRC", []string{"-n", "oops", "x"}},
}

var o10shared = []string{"d1", "d2"}

func o10run(c o10case) string {
	app := App("app", "")
	app.ErrorHandling = flag.ContinueOnError
	app.Spec = c.spec
	var fSet, nSet bool
	f := app.Bool(BoolOpt{Name: "f force", SetByUser: &fSet})
	g := app.BoolOpt("g", false, "")
	a, b, cc := app.BoolOpt("a", false, ""), app.BoolOpt("b", false, ""), app.BoolOpt("c", false, "")
	n := app.Int(IntOpt{Name: "n num", Value: 3, SetByUser: &nSet})
	o := app.StringsOpt("o out", o10shared, "")
	v := app.StringsOpt("v", nil, "")
	_ = v
	src := app.StringsArg("SRC", nil, "")
	dst := app.StringArg("DST", "dd", "")
	var log []string
	app.Before = func() { log = append(log, "before") }
	app.Action = func() { log = append(log, "action") }
	app.After = func() { log = append(log, "after") }
	app.Command("sub s", "", func(s *Cmd) {
		x := s.StringOpt("x", "dx", "")
		s.Action = func() { log = append(log, "sub:"+*x) }
	})
	err := app.Run(append([]string{"app"}, c.argv...))
	if err != nil {
		return fmt.Sprintf("log=%v err=true", log)
	}
	return fmt.Sprintf("log=%v f=%v/%v g=%v abc=%v%v%v n=%d/%v o=%q src=%q dst=%q", log, *f, fSet, *g, *a, *b, *cc, *n, nSet, *o, *src, *dst)
}

func TestO10IndependenceAndDeterminism(t *testing.T) {
	goroutines, rounds := 8, 40
	if v := os.Getenv("O10_G"); v != "" {
		goroutines, _ = strconv.Atoi(v)
	}
	if v := os.Getenv("O10_R"); v != "" {
		rounds, _ = strconv.Atoi(v)
	}
	oldOut, oldErr, oldExiter := stdOut, stdErr, exiter
	stdOut, stdErr = ioutil.Discard, ioutil.Discard
	exiter = func(int) {}
	defer func() { stdOut, stdErr, exiter = oldOut, oldErr, oldExiter }()

	var fail map[string]string
	ref := make([]string, len(o10cases))
	for i, c := range o10cases {
		ref[i] = o10run(c)
	}
	// sequential: rebuild and rerun, interleaved with the other applications
	runs := 0
	for r := 0; r < rounds && fail == nil; r++ {
		for i, c := range o10cases {
			runs++
			if got := o10run(c); got != ref[i] {
				fail = map[string]string{"phase": "sequential rebuild/rerun", "spec": c.spec, "argv": strings.Join(c.argv, " "), "first_outcome": ref[i], "later_outcome": got, "round": strconv.Itoa(r)}
				break
			}
		}
	}
	if strings.Join(o10shared, ",") != "d1,d2" && fail == nil {
		fail = map[string]string{"phase": "sequential", "problem": "a default slice handed to the library was modified", "now": strings.Join(o10shared, ",")}
	}
	// concurrent
	if fail == nil {
		var mu sync.Mutex
		var wg sync.WaitGroup
		for gI := 0; gI < goroutines; gI++ {
			wg.Add(1)
			go func(gI int) {
				defer wg.Done()
				for r := 0; r < rounds; r++ {
					i := (gI + r) % len(o10cases)
					got := o10run(o10cases[i])
					mu.Lock()
					runs++
					if got != ref[i] && fail == nil {
						fail = map[string]string{"phase": "concurrent", "spec": o10cases[i].spec, "argv": strings.Join(o10cases[i].argv, " "), "sequential_outcome": ref[i], "concurrent_outcome": got}
					}
					mu.Unlock()
				}
			}(gI)
		}
		wg.Wait()
	}
	res := map[string]interface{}{"name": "O10", "ok": fail == nil, "applications": len(o10cases), "goroutines": goroutines, "rounds": rounds, "runs": runs, "race_detector": true}
	if fail != nil {
		res["counterexample"] = fail
	}
	out, _ := json.Marshal(res)
	fmt.Println(string(out))
	if fail != nil {
		t.Fatalf("O10: %v", fail)
	}
}
