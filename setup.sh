#!/bin/sh
# Build the VC generator from files on disk only (offline).
set -e
cd "$(dirname "$0")"
export GOFLAGS=-mod=mod GOPROXY=off GOSUMDB=off GOTOOLCHAIN=local CGO_ENABLED=0
mkdir -p bin evidence replay/out
(cd engine && go build -o ../bin/govc .)
echo "built bin/govc"
