package main

// Translation of assertion-language expressions to SMT terms in a given state.

import (
	"go/token"
	"fmt"
	"go/constant"
	"go/types"
	"sort"
	"strconv"
	"strings"

	"golang.org/x/tools/go/ssa"
)

type specErr struct{ msg string }

type SpecCtx struct {
	x        *Exec
	st       *State
	frame    *Frame
	fn       *ssa.Function
	pkgPath  string
	vars     map[string]*Term
	bound    []map[string]*Term
	loop     *LoopInfo
	oldHeap  map[string]*Term // heap snapshot for old(); nil: function entry
	oldTrace *Term
	oldAlloc *Term
	hasOld   bool
	inOld    bool
	clause   string
	noState  bool // axioms / pure functions: no heap access allowed
	heapVars map[string]*Term // pure functions with explicit heap parameters
	callSite bool             // translating a callee's contract at a call site
	preMod   map[string]bool  // call sites: arrays modified at pre-existing objects before the call (the callee's own effects do not count)
	fuelVar  string           // inside the body of a recursive pure function
	curSpec  *specSig
	host     *Frame // loops adopted from a contract-less helper: the caller's frame, searched after the helper's own
}

func (x *Exec) newSpecCtx(st *State, f *Frame, fn *ssa.Function) *SpecCtx {
	c := &SpecCtx{x: x, st: st, frame: f, fn: fn, vars: map[string]*Term{}}
	if fn != nil {
		top := fn
		for top.Parent() != nil {
			top = top.Parent()
		}
		if top.Pkg != nil {
			c.pkgPath = top.Pkg.Pkg.Path()
		}
	}
	return c
}

// tryCall evaluates a builtin in the current frame with the host fallback switched off; nil when that is a spec error
func (c *SpecCtx) tryCall(e *Expr, pos bool) (t *Term) {
	saveHost := c.host
	c.host = nil
	defer func() {
		c.host = saveHost
		if r := recover(); r != nil {
			if _, ok := r.(specErr); !ok {
				panic(r)
			}
			t = nil
		}
	}()
	return c.call(e, pos)
}

func (c *SpecCtx) fail(f string, a ...interface{}) {
	panic(specErr{fmt.Sprintf("spec error in %s: ", c.clause) + fmt.Sprintf(f, a...)})
}

func (c *SpecCtx) bindParams(fn *ssa.Function, args []*Term) {
	for i, p := range fn.Params {
		if i < len(args) && args[i] != nil {
			t := args[i]
			if t.T == nil {
				t = mkT(t.Sort, t.S, p.Type())
			}
			c.vars[p.Name()] = t
		}
	}
}

func (c *SpecCtx) bindResults(fn *ssa.Function, results []*Term) {
	res := fn.Signature.Results()
	for i, r := range results {
		if r == nil {
			continue
		}
		if i < res.Len() {
			if n := res.At(i).Name(); n != "" && n != "_" {
				c.vars[n] = r
			}
		}
		c.vars[fmt.Sprintf("result%d", i)] = r
		if i == 0 {
			c.vars["result"] = r
		}
	}
}

func (c *SpecCtx) evalLets(con *Contract) {
	for _, l := range con.Lets {
		c.clause = con.Key + "/let " + l.Name
		c.vars[l.Name] = c.expr(l.E)
	}
}

// evalLetsOld evaluates the lets in the pre-state (they abbreviate entry values)
func (c *SpecCtx) evalLetsOld(con *Contract) {
	save := c.inOld
	c.inOld = true
	for _, l := range con.Lets {
		c.clause = con.Key + "/let " + l.Name
		c.vars[l.Name] = c.expr(l.E)
	}
	c.inOld = save
}

func (c *SpecCtx) boolExpr(e *Expr, positive bool) *Term {
	t := c.tr(e, positive)
	if t.Sort != "Bool" {
		c.fail("expected a boolean, got %s", t.Sort)
	}
	return t
}

func (c *SpecCtx) intExpr(e *Expr) *Term {
	t := c.tr(e, false)
	if t.Sort != "Int" {
		c.fail("expected an integer, got %s", t.Sort)
	}
	return t
}

func (c *SpecCtx) expr(e *Expr) *Term { return c.tr(e, false) }

func (c *SpecCtx) heapArr(name string) *Term {
	if c.heapVars != nil {
		if t, ok := c.heapVars[name]; ok {
			return t
		}
	}
	if c.noState {
		c.fail("heap access (%s) in a state-less context", name)
	}
	if c.inOld {
		if c.hasOld {
			if t, ok := c.oldHeap[name]; ok {
				return t
			}
		}
		return c.x.heapEntry(c.st, name)
	}
	return c.x.heapGet(c.st, name)
}

func (c *SpecCtx) lookupBound(n string) *Term {
	for i := len(c.bound) - 1; i >= 0; i-- {
		if t, ok := c.bound[i][n]; ok {
			return t
		}
	}
	return nil
}

func (c *SpecCtx) pkg() *types.Package {
	for _, p := range c.x.pkgs {
		if p.PkgPath == c.pkgPath {
			return p.Types
		}
	}
	return nil
}

func (c *SpecCtx) resolveType(s string) types.Type {
	return c.x.resolveType(c.pkgPath, s)
}

func (x *Exec) resolveType(pkgPath, s string) types.Type {
	key := pkgPath + "|" + s
	if t, ok := x.typeCache[key]; ok {
		return t
	}
	switch s {
	case "Ev":
		return nil
	}
	for _, p := range x.pkgs {
		if p.PkgPath != pkgPath {
			continue
		}
		for _, f := range p.Syntax {
			tv, err := types.Eval(p.Fset, p.Types, f.Package, s)
			if err == nil && tv.IsType() {
				x.typeCache[key] = tv.Type
				return tv.Type
			}
		}
	}
	// unexported type of another repository package: [*]pkg.name
	{
		ptr := strings.HasPrefix(s, "*")
		q := strings.TrimPrefix(s, "*")
		if i := strings.Index(q, "."); i > 0 {
			for _, p := range x.pkgs {
				if p.Types.Name() == q[:i] {
					if obj := p.Types.Scope().Lookup(q[i+1:]); obj != nil {
						if tn, ok := obj.(*types.TypeName); ok {
							var t types.Type = tn.Type()
							if ptr {
								t = types.NewPointer(t)
							}
							x.typeCache[key] = t
							return t
						}
					}
				}
			}
		}
	}
	panic(specErr{fmt.Sprintf("cannot resolve type %q in package %s", s, pkgPath)})
}

// sortOfTypeString: Go type syntax or one of the spec-only sorts
func (x *Exec) sortOfTypeString(pkgPath, s string) (string, types.Type) {
	switch s {
	case "Ev":
		return "Ev", nil
	case "trace", "[]Ev":
		x.reg.SeqSort("Ev")
		return "Seq_Ev", nil
	case "any":
		return "Iface", nil
	}
	if strings.HasPrefix(s, "set[") && strings.HasSuffix(s, "]") {
		ks, _ := x.sortOfTypeString(pkgPath, s[4:len(s)-1])
		return "(Array " + ks + " Bool)", nil
	}
	if strings.HasPrefix(s, "array[") {
		// array[K]V
		depth := 0
		for i := 5; i < len(s); i++ {
			if s[i] == '[' {
				depth++
			}
			if s[i] == ']' {
				depth--
				if depth == 0 {
					ks, _ := x.sortOfTypeString(pkgPath, s[6:i])
					vs, _ := x.sortOfTypeString(pkgPath, s[i+1:])
					return "(Array " + ks + " " + vs + ")", nil
				}
			}
		}
	}
	if strings.HasPrefix(s, "heap[") && strings.HasSuffix(s, "]") {
		n := s[5 : len(s)-1]
		if _, ok := x.reg.heap[n]; !ok {
			panic(specErr{"unknown heap array " + n})
		}
		return x.reg.HeapSort(n), nil
	}
	t := x.resolveType(pkgPath, s)
	return x.reg.SortOf(t), t
}

func (c *SpecCtx) local(name string) (*Term, bool) {
	if c.frame == nil {
		return nil, false
	}
	// candidate cells by name; prefer the one declared latest before the loop head / most recent
	var best *ssa.Alloc
	for a := range c.frame.cellsByA {
		if a.Comment != name {
			continue
		}
		if best == nil || a.Pos() > best.Pos() {
			if c.loop != nil && !a.Block().Dominates(c.loop.head) {
				continue
			}
			best = a
		}
	}
	if best != nil {
		cell := c.frame.cellsByA[best]
		v := c.st.cells[cell]
		switch v := v.(type) {
		case *Term:
			if v.T == nil {
				return mkT(v.Sort, v.S, cell.typ), true
			}
			return v, true
		case *Owned:
			return c.x.ownedTerm(c.st, v), true
		}
		return nil, false
	}
	// heap-allocated locals (escaping): registers holding refs
	for v, val := range c.frame.regs {
		if a, ok := v.(*ssa.Alloc); ok && a.Comment == name {
			if t, ok := val.(*Term); ok {
				ad := &Addr{Ref: t, Elem: a.Type().Underlying().(*types.Pointer).Elem()}
				lv := c.x.load(c.st, ad, a.Pos())
				if lt, ok := lv.(*Term); ok {
					return lt, true
				}
			}
		}
	}
	// captured variables of a closure frame
	for i, fv := range c.frame.fn.FreeVars {
		if fv.Name() == name {
			if a, ok := c.frame.bind[i].(*Addr); ok {
				if t, ok := c.x.load(c.st, a, fv.Pos()).(*Term); ok {
					return t, true
				}
			}
		}
	}
	return nil, false
}

func (c *SpecCtx) ident(name string) *Term {
	if t := c.lookupBound(name); t != nil {
		return t
	}
	if t, ok := c.vars[name]; ok {
		return t
	}
	switch name {
	case "trace":
		if c.inOld {
			if c.hasOld {
				return c.oldTrace
			}
			return c.st.trace0
		}
		return c.st.trace
	case "$k":
		if c.loop != nil && c.frame != nil {
			for a, cell := range c.frame.cellsByA {
				if a.Comment == "rangeindex" && c.loop.body[a.Block()] == false && c.isIndexOf(a, c.loop) {
					if t, ok := c.st.cells[cell].(*Term); ok {
						return Add(t, IntLit(1))
					}
				}
			}
		}
		// a counting loop `for i := 0; i < n; i++`: the number of completed iterations is i (the loop starts it at 0: checked)
		if c.loop != nil && c.frame != nil {
			if a := countingVar(c.loop); a != nil {
				if cell := c.frame.cellsByA[a]; cell != nil {
					if t, ok := c.st.cells[cell].(*Term); ok {
						return t
					}
				}
			}
		}
		c.fail("$k used outside a range loop")
	}
	if strings.HasSuffix(name, "0") && len(name) > 1 {
		// entry value of a parameter: x0
		if c.frame != nil {
			for i, p := range c.frame.fn.Params {
				if p.Name() == name[:len(name)-1] && c.frame.params[i] != nil {
					t := c.frame.params[i]
					return mkT(t.Sort, t.S, p.Type())
				}
			}
		}
	}
	if t, ok := c.local(name); ok {
		return t
	}
	if c.host != nil {
		// adopted loop: a variable of the calling function (its value cannot change while the helper runs)
		save, saveLoop := c.frame, c.loop
		c.frame, c.loop = c.host, nil
		t, ok := c.local(name)
		c.frame, c.loop = save, saveLoop
		if ok {
			return t
		}
	}
	// package-level constants and variables
	if p := c.pkg(); p != nil {
		if obj := p.Scope().Lookup(name); obj != nil {
			switch o := obj.(type) {
			case *types.Const:
				return c.constTerm(o.Val(), o.Type())
			case *types.Var:
				sp := c.x.spkgs[c.pkgPath]
				if g, ok := sp.Members[name].(*ssa.Global); ok {
					if c.noState {
						c.fail("global %s read in a state-less context", name)
					}
					a := c.x.globalAddr(g)
					save := c.st.heap
					if c.inOld {
						c.st.heap = c.oldHeapMap()
					}
					v := c.x.load(c.st, a, g.Pos())
					c.st.heap = save
					if t, ok := v.(*Term); ok {
						return t
					}
				}
			}
		}
	}
	if sf := c.x.specSigs[name]; sf != nil && len(sf.params) == 0 {
		return c.callSpec(sf, nil)
	}
	c.fail("unknown identifier %q", name)
	return nil
}

func (c *SpecCtx) oldHeapMap() map[string]*Term {
	m := map[string]*Term{}
	for k, v := range c.st.heap0 {
		m[k] = v
	}
	if c.hasOld {
		for k, v := range c.oldHeap {
			m[k] = v
		}
	}
	return m
}

func (c *SpecCtx) isIndexOf(a *ssa.Alloc, li *LoopInfo) bool {
	// the hidden range index of loop li is stored in the head block
	for _, in := range li.head.Instrs {
		if s, ok := in.(*ssa.Store); ok && s.Addr == a {
			return true
		}
	}
	return false
}

func (c *SpecCtx) constTerm(v constant.Value, t types.Type) *Term {
	switch v.Kind() {
	case constant.Bool:
		return mkT("Bool", BoolLit(constant.BoolVal(v)).S, t)
	case constant.Int:
		n, _ := constant.Int64Val(v)
		r := IntLit(n)
		r.T = t
		return r
	case constant.String:
		r := c.x.reg.StrLit(constant.StringVal(v))
		return mkT("Str", r.S, t)
	}
	c.fail("unsupported constant kind")
	return nil
}

func (c *SpecCtx) lenOf(t *Term) *Term {
	switch {
	case t.Sort == "Str":
		return App("Int", "slen", t)
	case isSeq(t.Sort):
		return App("Int", "len_"+seqElem(t.Sort), t)
	}
	if t.T != nil {
		if mt, ok := t.T.Underlying().(*types.Map); ok {
			ks, es := c.x.reg.SortOf(mt.Key()), c.x.reg.SortOf(mt.Elem())
			dn, _ := c.x.reg.MapArrays(ks, es)
			return Ite(Eq(t, IntLit(0)), IntLit(0), App("Int", c.x.reg.MapCard(ks), sel(c.heapArr(dn), t, c.x.reg.heap[dn][1])))
		}
	}
	c.fail("len of %s", t.Sort)
	return nil
}

func elemType(t types.Type) types.Type {
	if t == nil {
		return nil
	}
	switch u := t.Underlying().(type) {
	case *types.Slice:
		return u.Elem()
	case *types.Array:
		return u.Elem()
	case *types.Map:
		return u.Elem()
	case *types.Pointer:
		return u.Elem()
	}
	return nil
}

func (c *SpecCtx) tr(e *Expr, pos bool) *Term {
	x := c.x
	switch e.Op {
	case "int":
		n, _ := strconv.ParseInt(e.Name, 10, 64)
		return IntLit(n)
	case "bool":
		return BoolLit(e.Name == "true")
	case "str":
		return x.reg.StrLit(e.Name)
	case "nil":
		return mk("Nil", "nil")
	case "id":
		return c.ident(e.Name)
	case "old":
		save := c.inOld
		c.inOld = true
		t := c.tr(e.Args[0], pos)
		c.inOld = save
		return t
	case "un":
		a := c.tr(e.Args[0], !pos)
		if e.Name == "!" {
			if a.Sort != "Bool" {
				c.fail("! applied to %s", a.Sort)
			}
			return Not(a)
		}
		return App("Int", "-", a)
	case "ite":
		cnd := c.tr(e.Args[0], false)
		a := c.tr(e.Args[1], pos)
		b := c.tr(e.Args[2], pos)
		a, b = c.unifyNil(a, b)
		if a.Sort != b.Sort {
			c.fail("branches of ?: have sorts %s and %s", a.Sort, b.Sort)
		}
		return Ite(cnd, a, b)
	case "let":
		v := c.tr(e.Args[0], false)
		c.bound = append(c.bound, map[string]*Term{e.Binders[0].Name: v})
		r := c.tr(e.Args[1], pos)
		c.bound = c.bound[:len(c.bound)-1]
		return r
	case "quant":
		m := map[string]*Term{}
		var bs []string
		for _, b := range e.Binders {
			sort, gt := x.sortOfTypeString(c.pkgPath, b.Type)
			name := "q_" + sanitize(b.Name)
			// avoid capture with an outer binder of the same name
			if c.lookupBound(b.Name) != nil {
				name = fmt.Sprintf("q%d_%s", len(c.bound), sanitize(b.Name))
			}
			m[b.Name] = mkT(sort, name, gt)
			bs = append(bs, fmt.Sprintf("(%s %s)", name, sort))
		}
		c.bound = append(c.bound, m)
		bodyPos := pos
		if e.Name == "exists" {
			bodyPos = pos
		}
		body := c.tr(e.Args[0], bodyPos)
		var pats []string
		for _, tg := range e.Trig {
			var ps []string
			for _, t := range tg {
				ps = append(ps, c.tr(t, false).S)
			}
			pats = append(pats, ":pattern ("+strings.Join(ps, " ")+")")
		}
		c.bound = c.bound[:len(c.bound)-1]
		if body.Sort != "Bool" {
			c.fail("quantifier body is %s", body.Sort)
		}
		b := body.S
		if len(pats) > 0 {
			b = "(! " + b + " " + strings.Join(pats, " ") + ")"
		}
		return mk("Bool", "("+e.Name+" ("+strings.Join(bs, " ")+") "+b+")")
	case "field":
		// package-qualified constant?
		if e.Args[0].Op == "id" && c.lookupBound(e.Args[0].Name) == nil {
			if _, isVar := c.vars[e.Args[0].Name]; !isVar {
				if t := c.qualified(e.Args[0].Name, e.Name); t != nil {
					return t
				}
			}
		}
		b := c.tr(e.Args[0], false)
		return c.field(b, e.Name)
	case "index":
		b := c.tr(e.Args[0], false)
		i := c.tr(e.Args[1], false)
		switch {
		case b.Sort == "Str":
			return App("Int", "sat", b, i)
		case isSeq(b.Sort):
			es := seqElem(b.Sort)
			return mkT(es, App(es, "at_"+es, b, i).S, elemType(b.T))
		case b.T != nil:
			if mt, ok := b.T.Underlying().(*types.Map); ok {
				ks, es := x.reg.SortOf(mt.Key()), x.reg.SortOf(mt.Elem())
				dn, vn := x.reg.MapArrays(ks, es)
				ds, vs := x.reg.heap[dn][1], x.reg.heap[vn][1]
				present := And(Not(Eq(b, IntLit(0))), sel(sel(c.heapArr(dn), b, ds), i, "Bool"))
				return mkT(es, Ite(present, sel(sel(c.heapArr(vn), b, vs), i, es), x.zero(c.st, mt.Elem())).S, mt.Elem())
			}
		}
		if strings.HasPrefix(b.Sort, "(Array ") {
			// raw array (set or heap snapshot)
			es := arrayElemSort(b.Sort)
			return mk(es, sel(b, i, es).S)
		}
		c.fail("cannot index %s", b.Sort)
	case "slice":
		b := c.tr(e.Args[0], false)
		var lo, hi *Term
		if e.Args[1] != nil {
			lo = c.tr(e.Args[1], false)
		} else {
			lo = IntLit(0)
		}
		if e.Args[2] != nil {
			hi = c.tr(e.Args[2], false)
		} else {
			hi = c.lenOf(b)
		}
		if b.Sort == "Str" {
			return mkT("Str", App("Str", "ssub", b, lo, hi).S, b.T)
		}
		if isSeq(b.Sort) {
			return mkT(b.Sort, App(b.Sort, "sub_"+seqElem(b.Sort), b, lo, hi).S, b.T)
		}
		c.fail("cannot slice %s", b.Sort)
	case "call":
		return c.call(e, pos)
	case "bin":
		return c.bin(e, pos)
	}
	c.fail("unsupported expression %s", e.Op)
	return nil
}

func arrayElemSort(s string) string {
	// "(Array K V)" -> V (K has no spaces unless nested parentheses)
	inner := s[len("(Array ") : len(s)-1]
	depth := 0
	for i := 0; i < len(inner); i++ {
		switch inner[i] {
		case '(':
			depth++
		case ')':
			depth--
		case ' ':
			if depth == 0 {
				return inner[i+1:]
			}
		}
	}
	return inner
}

func (c *SpecCtx) unifyNil(a, b *Term) (*Term, *Term) {
	if a.Sort == "Nil" && b.Sort != "Nil" {
		a = c.nilOf(b)
	}
	if b.Sort == "Nil" && a.Sort != "Nil" {
		b = c.nilOf(a)
	}
	return a, b
}

func (c *SpecCtx) nilOf(like *Term) *Term {
	switch {
	case like.Sort == "Int":
		return IntLit(0)
	case like.Sort == "Iface":
		return mk("Iface", "inil")
	case isSeq(like.Sort):
		return mk(like.Sort, "nil_"+seqElem(like.Sort))
	}
	c.fail("nil compared with %s", like.Sort)
	return nil
}

func (c *SpecCtx) qualified(pkgName, name string) *Term {
	p := c.pkg()
	if p == nil {
		return nil
	}
	for _, imp := range p.Imports() {
		if imp.Name() == pkgName {
			obj := imp.Scope().Lookup(name)
			if k, ok := obj.(*types.Const); ok {
				return c.constTerm(k.Val(), k.Type())
			}
			if v, ok := obj.(*types.Var); ok {
				_ = v
				if sp := c.x.spkgs[imp.Path()]; sp != nil {
					if g, ok := sp.Members[name].(*ssa.Global); ok {
						a := c.x.globalAddr(g)
						if t, ok := c.x.load(c.st, a, g.Pos()).(*Term); ok {
							return t
						}
					}
				}
			}
		}
	}
	return nil
}

func (c *SpecCtx) field(b *Term, name string) *Term {
	x := c.x
	// struct value
	if si, ok := x.reg.structs[b.Sort]; ok {
		for _, f := range si.Fields {
			if f.Name == name {
				return mkT(f.Sort, App(f.Sort, si.Sort+"_"+f.Name, b).S, f.T)
			}
		}
		c.fail("struct %s has no field %s", si.Sort, name)
	}
	if b.Sort == "Ev" {
		switch name {
		case "kind":
			return App("Int", "ekind", b)
		case "a":
			return App("Int", "ea", b)
		case "b":
			return App("Int", "eb", b)
		case "s":
			return App("Str", "es", b)
		}
	}
	if b.T != nil {
		if pt, ok := b.T.Underlying().(*types.Pointer); ok {
			if si := x.structOf(pt.Elem()); si != nil {
				for i, f := range si.Fields {
					if f.Name == name {
						arr, _ := x.reg.FieldArray(si, i)
						return mkT(f.Sort, sel(c.heapArr(arr), b, f.Sort).S, f.T)
					}
				}
				// embedded structs (promoted fields), one level
				for i, f := range si.Fields {
					st, ok := f.T.Underlying().(*types.Pointer)
					if ok && si.T.Field(i).Embedded() {
						if esi := x.structOf(st.Elem()); esi != nil {
							arr, _ := x.reg.FieldArray(si, i)
							inner := mkT(f.Sort, sel(c.heapArr(arr), b, f.Sort).S, f.T)
							for _, ef := range esi.Fields {
								if ef.Name == name {
									return c.field(inner, name)
								}
							}
						}
					}
				}
				c.fail("type %s has no field %s", pt.Elem(), name)
			}
		}
	}
	c.fail("field %s of a value of sort %s (type %v)", name, b.Sort, b.T)
	return nil
}

func (c *SpecCtx) fieldArrayName(obj *Term, field string) string {
	x := c.x
	if obj.T != nil {
		if pt, ok := obj.T.Underlying().(*types.Pointer); ok {
			if si := x.structOf(pt.Elem()); si != nil {
				for i, f := range si.Fields {
					if f.Name == field {
						n, _ := x.reg.FieldArray(si, i)
						return n
					}
				}
			}
		}
	}
	c.fail("no heap field %s on %v", field, obj.T)
	return ""
}

// frame(x.f): every other object's field f is as in the pre-state.   unchanged(x.f): the whole field array is.
// frame(m[k]): every other (map,key) entry of that map type is as in the pre-state.  unchanged(m): the map heap of that type is.
// frame(deref(p)) / unchanged(deref(p)) likewise for boxed values.
func (c *SpecCtx) frameClause(e *Expr, whole bool) *Term {
	x := c.x
	if len(e.Args) != 1 {
		c.fail("frame/unchanged take one argument")
	}
	a := e.Args[0]
	cur := func(n string) *Term { save := c.inOld; c.inOld = false; t := c.heapArr(n); c.inOld = save; return t }
	old := func(n string) *Term { save := c.inOld; c.inOld = true; t := c.heapArr(n); c.inOld = save; return t }
	isMapExpr := false
	if a.Op == "field" {
		if t := c.tr(a, false); t.T != nil {
			_, isMapExpr = t.T.Underlying().(*types.Map)
		}
	}
	switch {
	case a.Op == "field" && !isMapExpr:
		obj := c.tr(a.Args[0], false)
		n := c.fieldArrayName(obj, a.Name)
		es := x.reg.heap[n][1]
		if whole {
			return Eq(cur(n), old(n))
		}
		return Eq(cur(n), sto(old(n), obj, sel(cur(n), obj, es)))
	case a.Op == "call" && a.Name == "deref":
		p := c.tr(a.Args[0], false)
		pt, ok := p.T.Underlying().(*types.Pointer)
		if !ok {
			c.fail("frame(deref(p)): p is not a pointer")
		}
		sort := x.reg.SortOf(pt.Elem())
		n := x.reg.BoxArray(sort)
		if whole {
			return Eq(cur(n), old(n))
		}
		return Eq(cur(n), sto(old(n), p, sel(cur(n), p, sort)))
	default:
		var m, k *Term
		if a.Op == "index" {
			m = c.tr(a.Args[0], false)
			k = c.tr(a.Args[1], false)
		} else {
			m = c.tr(a, false)
		}
		if m.T == nil {
			c.fail("frame: untyped map expression")
		}
		mt, ok := m.T.Underlying().(*types.Map)
		if !ok {
			c.fail("frame/unchanged: expected x.f, m[k], a map or deref(p)")
		}
		ks, es := x.reg.SortOf(mt.Key()), x.reg.SortOf(mt.Elem())
		dn, vn := x.reg.MapArrays(ks, es)
		ds, vs := x.reg.heap[dn][1], x.reg.heap[vn][1]
		if whole || k == nil {
			return And(Eq(cur(dn), old(dn)), Eq(cur(vn), old(vn)))
		}
		nd := sto(old(dn), m, sto(sel(old(dn), m, ds), k, sel(sel(cur(dn), m, ds), k, "Bool")))
		nv := sto(old(vn), m, sto(sel(old(vn), m, vs), k, sel(sel(cur(vn), m, vs), k, es)))
		return And(Eq(cur(dn), nd), Eq(cur(vn), nv))
	}
}

// deref: *p for pointers to non-struct values
func (c *SpecCtx) deref(p *Term) *Term {
	x := c.x
	if p.T == nil {
		c.fail("deref of untyped term")
	}
	pt, ok := p.T.Underlying().(*types.Pointer)
	if !ok {
		c.fail("deref of non-pointer %s", p.T)
	}
	if si := x.structOf(pt.Elem()); si != nil {
		var fs []*Term
		for i, f := range si.Fields {
			arr, _ := x.reg.FieldArray(si, i)
			fs = append(fs, sel(c.heapArr(arr), p, f.Sort))
		}
		return mkT(si.Sort, App(si.Sort, "mk_"+si.Sort, fs...).S, pt.Elem())
	}
	sort := x.reg.SortOf(pt.Elem())
	return mkT(sort, sel(c.heapArr(x.reg.BoxArray(sort)), p, sort).S, pt.Elem())
}

func (c *SpecCtx) bin(e *Expr, pos bool) *Term {
	op := e.Name
	switch op {
	case "&&":
		return And(c.boolExpr(e.Args[0], pos), c.boolExpr(e.Args[1], pos))
	case "||":
		return Or(c.boolExpr(e.Args[0], pos), c.boolExpr(e.Args[1], pos))
	case "==>":
		return Implies(c.boolExpr(e.Args[0], !pos && false), c.boolExpr(e.Args[1], pos))
	case "<==>":
		a, b := c.boolExpr(e.Args[0], false), c.boolExpr(e.Args[1], false)
		return Eq(a, b)
	case "in":
		k := c.tr(e.Args[0], false)
		m := c.tr(e.Args[1], false)
		if strings.HasPrefix(m.Sort, "(Array ") {
			return sel(m, k, "Bool")
		}
		if m.T != nil {
			if mt, ok := m.T.Underlying().(*types.Map); ok {
				ks, es := c.x.reg.SortOf(mt.Key()), c.x.reg.SortOf(mt.Elem())
				dn, _ := c.x.reg.MapArrays(ks, es)
				ds := c.x.reg.heap[dn][1]
				return And(Not(Eq(m, IntLit(0))), sel(sel(c.heapArr(dn), m, ds), k, "Bool"))
			}
		}
		c.fail("'in' needs a map or set, got %s", m.Sort)
	}
	a := c.tr(e.Args[0], false)
	b := c.tr(e.Args[1], false)
	a, b = c.unifyNil(a, b)
	switch op {
	case "==", "!=":
		if a.Sort != b.Sort {
			c.fail("%s compares %s with %s", op, a.Sort, b.Sort)
		}
		var r *Term
		if pos && op == "==" && a.Sort == "Str" {
			r = And(App("Bool", "str_eq", a, b))
		} else if pos && op == "==" && isSeq(a.Sort) {
			r = App("Bool", "seq_eq_"+seqElem(a.Sort), a, b)
		} else {
			r = Eq(a, b)
		}
		if op == "!=" {
			return Not(Eq(a, b))
		}
		return r
	case "<", "<=", ">", ">=":
		if a.Sort != "Int" || b.Sort != "Int" {
			c.fail("%s on %s and %s", op, a.Sort, b.Sort)
		}
		return App("Bool", op, a, b)
	case "+":
		if a.Sort == "Str" && b.Sort == "Str" {
			return App("Str", "scat", a, b)
		}
		if a.Sort != "Int" || b.Sort != "Int" {
			c.fail("+ on %s and %s", a.Sort, b.Sort)
		}
		return Add(a, b)
	case "-":
		return Sub(a, b)
	case "*":
		return App("Int", "*", a, b)
	case "/":
		return App("Int", "div", a, b)
	case "%":
		return App("Int", "mod", a, b)
	case "++":
		if a.Sort != b.Sort {
			c.fail("++ on %s and %s", a.Sort, b.Sort)
		}
		if a.Sort == "Str" {
			return App("Str", "scat", a, b)
		}
		return mkT(a.Sort, App(a.Sort, "cat_"+seqElem(a.Sort), a, b).S, a.T)
	}
	c.fail("unknown operator %s", op)
	return nil
}

type specSig struct {
	reads  map[string]bool // heap arrays read at their entry version (static spec functions)
	rec    bool
	name   string
	params []specParam
	ret    string
	retT   types.Type
	heaps  []string // heap arrays passed implicitly (current or old versions)
	uses   []string // spec functions called in the body
	pkg    string
}
type specParam struct {
	name string
	sort string
	T    types.Type
}

func (c *SpecCtx) callSpec(sf *specSig, args []*Term) *Term {
	if c.curSpec != nil {
		c.curSpec.uses = append(c.curSpec.uses, sf.name)
	}
	if len(args) != len(sf.params) {
		c.fail("%s expects %d arguments, got %d", sf.name, len(sf.params), len(args))
	}
	var all []*Term
	for i, a := range args {
		if a.Sort == "Nil" {
			a = c.nilOf(mk(sf.params[i].sort, ""))
		}
		if a.Sort != sf.params[i].sort {
			c.fail("argument %d of %s has sort %s, expected %s", i+1, sf.name, a.Sort, sf.params[i].sort)
		}
		all = append(all, a)
	}
	for _, h := range sf.heaps {
		all = append(all, c.heapArr(h))
	}
	c.checkStaticReads(sf, map[string]bool{})
	if sf.rec {
		fuel := "(FS (FS FZ))"
		if c.fuelVar != "" {
			fuel = c.fuelVar
		}
		all = append([]*Term{mk("Fuel", fuel)}, all...)
	}
	r := App(sf.ret, sf.name, all...)
	r.T = sf.retT
	return r
}

// checkStaticReads: a static spec function denotes its value in the entry heap; it may only be used while every
// heap array it reads (transitively) still has its entry version.
func (c *SpecCtx) checkStaticReads(sf *specSig, seen map[string]bool) {
	// Static functions denote values in the heap on entry of the function under verification.  In that function's own
	// clauses this is their meaning by definition; in a callee's contract they stand for the callee's entry heap, i.e. the
	// caller's heap at the call, so the arrays they read must still be as on entry (at pre-existing objects).
	if seen[sf.name] || !c.callSite {
		return
	}
	seen[sf.name] = true
	for h := range sf.reads {
		if c.st == nil {
			continue
		}
		mod := c.st.fullMod[h]
		if c.preMod != nil {
			mod = c.preMod[h]
		}
		if mod {
			c.fail("static spec function %s reads heap array %s, which has been modified at pre-existing objects on this path", sf.name, h)
		}
	}
	for _, d := range sf.uses {
		if s2 := c.x.specSigs[d]; s2 != nil {
			c.checkStaticReads(s2, seen)
		}
	}
}

func (c *SpecCtx) call(e *Expr, pos bool) *Term {
	if c.host != nil && (e.Name == "iterdone" || e.Name == "startTrace" || e.Name == "startVal") {
		// state of a loop of the caller, asked from a loop adopted from a helper: the helper's frame first, then the caller's
		if t := c.tryCall(e, pos); t != nil {
			return t
		}
		save, saveLoop, saveHost := c.frame, c.loop, c.host
		c.frame, c.loop, c.host = c.host, nil, nil
		defer func() { c.frame, c.loop, c.host = save, saveLoop, saveHost }()
		return c.call(e, pos)
	}
	x := c.x
	name := e.Name
	arg := func(i int) *Term { return c.tr(e.Args[i], false) }
	strArg := func(i int) string {
		if e.Args[i].Op != "str" {
			c.fail("%s: argument %d must be a string literal", name, i+1)
		}
		return e.Args[i].Name
	}
	switch name {
	case "len":
		return c.lenOf(arg(0))
	case "fresh":
		a := arg(0)
		base := c.st.alloc0
		if c.hasOld {
			base = c.oldAlloc
		}
		return Lt(base, a)
	case "allocated":
		return Le(arg(0), c.st.allocCtr)
	case "deref":
		return c.deref(arg(0))
	case "isType":
		t := c.resolveType(strArg(1))
		return Eq(App("Int", "itag", arg(0)), IntLit(int64(x.reg.Tag(t))))
	case "asType":
		t := c.resolveType(strArg(1))
		sort := x.reg.SortOf(t)
		r := x.reg.Unbox(App("Int", "ival", arg(0)), sort)
		return mkT(sort, r.S, t)
	case "toIface":
		t := c.resolveType(strArg(0))
		v := arg(1)
		return mk("Iface", App("Iface", "iface", IntLit(int64(x.reg.Tag(t))), x.reg.Box(v)).S)
	case "itag":
		return App("Int", "itag", arg(0))
	case "ival":
		return App("Int", "ival", arg(0))
	case "implements":
		t := c.resolveType(strArg(1))
		it, ok := t.Underlying().(*types.Interface)
		if !ok {
			c.fail("implements: %s is not an interface", t)
		}
		return App("Bool", x.reg.ImplPred(it, shortTypeName(t)), App("Int", "itag", arg(0)))
	case "hasPrefix":
		return x.hasPrefix(arg(0), arg(1), e.Args[1])
	case "seq":
		if len(e.Args) == 0 {
			c.fail("seq() needs elements; use nil for the empty sequence")
		}
		first := arg(0)
		es := first.Sort
		x.reg.SeqSort(es)
		r := App("Seq_"+es, "one_"+es, first)
		for i := 1; i < len(e.Args); i++ {
			r = App("Seq_"+es, "cat_"+es, r, App("Seq_"+es, "one_"+es, arg(i)))
		}
		return r
	case "upd":
		s := arg(0)
		return mkT(s.Sort, App(s.Sort, "upd_"+seqElem(s.Sort), s, arg(1), arg(2)).S, s.T)
	case "ev":
		x.reg.SeqSort("Ev")
		return App("Ev", "ev", arg(0), arg(1), arg(2), arg(3))
	case "evCall":
		x.reg.SeqSort("Ev")
		b := IntLit(0)
		if len(e.Args) > 1 {
			b = arg(1)
		}
		return App("Ev", "ev", IntLit(evCall), arg(0), b, mk("Str", "sempty"))
	case "evExit":
		x.reg.SeqSort("Ev")
		return App("Ev", "ev", IntLit(evExit), arg(0), IntLit(0), mk("Str", "sempty"))
	case "evOut":
		x.reg.SeqSort("Ev")
		return App("Ev", "ev", IntLit(evOut), arg(0), IntLit(0), arg(1))
	case "iterdone":
		// done-set of the map iteration of the current loop
		if c.frame != nil {
			var heads []*ssa.BasicBlock
			if c.loop != nil {
				heads = append(heads, c.loop.head)
			}
			for h := range c.frame.active {
				heads = append(heads, h)
			}
			for _, h := range heads {
				for _, in := range h.Instrs {
					if nx, ok := in.(*ssa.Next); ok {
						if it, ok := c.frame.regs[nx.Iter].(*Iter); ok && it.isMap {
							return sel(c.st.iters[it.id].done, arg(0), "Bool")
						}
					}
				}
			}
		}
		c.fail("iterdone outside a map range loop")
	case "iterpos":
		if c.loop != nil && c.frame != nil {
			for _, in := range c.loop.head.Instrs {
				if nx, ok := in.(*ssa.Next); ok {
					if it, ok := c.frame.regs[nx.Iter].(*Iter); ok && it.isStr {
						return c.st.iters[it.id].pos
					}
				}
			}
		}
		c.fail("iterpos outside a string range loop")
	case "store":
		a := arg(0)
		if !strings.HasPrefix(a.Sort, "(Array ") {
			c.fail("store: first argument must be an array, got %s", a.Sort)
		}
		return mk(a.Sort, sto(a, arg(1), arg(2)).S)
	case "domOf", "valOf":
		m := arg(0)
		if m.T == nil {
			c.fail("%s: untyped map", name)
		}
		mt, ok := m.T.Underlying().(*types.Map)
		if !ok {
			c.fail("%s: not a map", name)
		}
		ks, es := x.reg.SortOf(mt.Key()), x.reg.SortOf(mt.Elem())
		dn, vn := x.reg.MapArrays(ks, es)
		if name == "domOf" {
			ds := x.reg.heap[dn][1]
			return mk(ds, sel(c.heapArr(dn), m, ds).S)
		}
		vs := x.reg.heap[vn][1]
		return mk(vs, sel(c.heapArr(vn), m, vs).S)
	case "fieldHeap":
		// fieldHeap(p.f): the whole heap array of field f (current or old version)
		fe := e.Args[0]
		if fe.Op != "field" {
			c.fail("fieldHeap expects obj.field")
		}
		obj := c.tr(fe.Args[0], false)
		arr := c.fieldArrayName(obj, fe.Name)
		return mk(x.reg.HeapSort(arr), c.heapArr(arr).S)
	case "frame", "unchanged":
		return c.frameClause(e, name == "unchanged")
	case "startTrace":
		// startTrace(n): the ghost trace at the head of loop n, in the current iteration
		if e.Args[0].Op != "int" {
			c.fail("startTrace(n) needs a loop ordinal")
		}
		if c.frame == nil {
			// in a postcondition: the head of the last iteration of loop n on this path, or an unconstrained trace if the
			// path never reached the loop (the clause must guard its use)
			for ord, t := range c.st.loopTrace {
				if fmt.Sprint(ord) == e.Args[0].Name {
					return t
				}
			}
			c.x.reg.SeqSort("Ev")
			return c.st.Fresh("notrace", "Seq_Ev")
		}
		for _, en := range c.frame.active {
			if fmt.Sprint(en.ordinal) == e.Args[0].Name {
				return en.trace
			}
		}
		c.fail("startTrace(%s): loop not active", e.Args[0].Name)
	case "ownPanic":
		// in a `panics` clause: the value was raised by a panic statement of this very function
		if t, ok := c.vars["$ownPanic"]; ok {
			return t
		}
		c.fail("ownPanic() outside a panics clause")
	case "exhausted":
		// in a `loop N exit` clause: the loop is left through its own condition (not through a break)
		if t, ok := c.vars["$exhausted"]; ok {
			return t
		}
		c.fail("exhausted() outside a loop exit clause")
	case "startVal":
		// startVal(n, v): the value local variable v had at the head of loop n, in the current iteration
		if c.frame == nil || e.Args[0].Op != "int" || e.Args[1].Op != "id" {
			c.fail("startVal(n, variable)")
		}
		for _, en := range c.frame.active {
			if fmt.Sprint(en.ordinal) != e.Args[0].Name {
				continue
			}
			var best *ssa.Alloc
			for a := range c.frame.cellsByA {
				if a.Comment == e.Args[1].Name && (best == nil || a.Pos() > best.Pos()) {
					best = a
				}
			}
			if best != nil {
				switch v := en.cells[c.frame.cellsByA[best]].(type) {
				case *Term:
					if v.T == nil {
						return mkT(v.Sort, v.S, c.frame.cellsByA[best].typ)
					}
					return v
				case *Owned:
					return c.x.ownedTerm(c.st, v)
				}
			}
		}
		c.fail("startVal: no such loop or variable")
	case "noKeys":
		// noKeys("K"): the empty set of K
		ks, _ := x.sortOfTypeString(c.pkgPath, strArg(0))
		return mk("(Array "+ks+" Bool)", "((as const (Array "+ks+" Bool)) false)")
	case "constArray":
		// constArray("K", v): the array mapping every K to v
		ks, _ := x.sortOfTypeString(c.pkgPath, strArg(0))
		v := arg(1)
		if v.Sort == "Nil" {
			c.fail("constArray: give the value a sort (e.g. an empty slice expression)")
		}
		return mk("(Array "+ks+" "+v.Sort+")", "((as const (Array "+ks+" "+v.Sort+")) "+v.S+")")
	case "nilOf":
		_, t := x.sortOfTypeString(c.pkgPath, strArg(0))
		return x.zero(c.st, t)
	case "boxframe":
		// boxframe(r): in every boxed-value heap array only index r may differ from the pre-state
		r := arg(0)
		var cs []*Term
		for _, n := range x.reg.HeapNames() {
			if !strings.HasPrefix(n, "B_") {
				continue
			}
			save := c.inOld
			c.inOld = false
			cur := c.heapArr(n)
			c.inOld = true
			old := c.heapArr(n)
			c.inOld = save
			es := x.reg.heap[n][1]
			cs = append(cs, Eq(cur, sto(old, r, sel(cur, r, es))))
		}
		return And(cs...)
	case "evSet":
		// evSet(v, s, ok): v.Set(s) returned; ok says whether the error was nil
		x.reg.SeqSort("Ev")
		v := arg(0)
		return App("Ev", "ev", IntLit(evSet), App("Int", "ival", v), Ite(arg(2), IntLit(1), IntLit(0)), arg(1))
	case "evClear":
		x.reg.SeqSort("Ev")
		v := arg(0)
		return App("Ev", "ev", IntLit(evClear), App("Int", "ival", v), IntLit(1), mk("Str", "sempty"))
	case "evMark":
		// evMark("Func", a, b): ghost marker of a logged library function call
		x.reg.SeqSort("Ev")
		b := IntLit(0)
		if len(e.Args) > 2 {
			b = arg(2)
			if b.Sort == "Bool" {
				b = Ite(b, IntLit(1), IntLit(0))
			}
		}
		return App("Ev", "ev", IntLit(evMark), arg(1), b, x.reg.StrLit(strArg(0)))
	case "argsId":
		// argsId(v): the name under which the marker of a logged call records its []string argument
		x.reg.DeclFunc("argsId", []string{"Seq_Str"}, "Int")
		return App("Int", "argsId", arg(0))
	case "callOK":
		// callOK("Func", i): the logged call of Func whose marker is at trace position i returned a nil error
		x.reg.DeclFunc("callOK", []string{"Str", "Int"}, "Bool")
		return App("Bool", "callOK", x.reg.StrLit(strArg(0)), arg(1))
	case "callEnd":
		// callEnd("Func", i): length of the trace when the logged call of Func marked at position i returned
		x.reg.DeclFunc("callEnd", []string{"Str", "Int"}, "Int")
		return App("Int", "callEnd", x.reg.StrLit(strArg(0)), arg(1))
	case "isMark":
		// isMark(e, "Func"): e is the marker of a call of Func
		ev := arg(0)
		return And(Eq(App("Int", "ekind", ev), IntLit(evMark)), Eq(App("Str", "es", ev), x.reg.StrLit(strArg(1))))
	case "evEnv":
		x.reg.SeqSort("Ev")
		return App("Ev", "ev", IntLit(evEnv), IntLit(0), IntLit(0), arg(0))
	case "evMeth":
		// evMeth(v, "Method"): a logged call of another protocol method on v
		x.reg.SeqSort("Ev")
		v := arg(0)
		return App("Ev", "ev", IntLit(evMeth), App("Int", "ival", v), IntLit(1), x.reg.StrLit(strArg(1)))
	case "tr_prefix":
		x.reg.SeqSort("Ev")
		return App("Bool", "tr_prefix", arg(0), arg(1))
	case "noEvents":
		x.reg.SeqSort("Ev")
		return mk("Seq_Ev", "nil_Ev")
	case "frameOldMaps", "unchangedOldMaps":
		// frameOldMaps(m1, m2, ...): every map object of that type that existed in the pre-state, other than m1, m2, ..., is unchanged
		// unchangedOldMaps(m): every map object of m's type that existed in the pre-state is unchanged (m only gives the type)
		m := arg(0)
		mt, ok := m.T.Underlying().(*types.Map)
		if !ok {
			c.fail("%s: not a map", name)
		}
		ks, es := x.reg.SortOf(mt.Key()), x.reg.SortOf(mt.Elem())
		dn, vn := x.reg.MapArrays(ks, es)
		save := c.inOld
		c.inOld = false
		cd, cv := c.heapArr(dn), c.heapArr(vn)
		c.inOld = true
		od, ov := c.heapArr(dn), c.heapArr(vn)
		c.inOld = save
		base := c.st.alloc0
		if c.hasOld {
			base = c.oldAlloc
		}
		cond := "(<= r " + base.S + ")"
		if name == "frameOldMaps" {
			for i := range e.Args {
				cond = "(and " + cond + " (not (= r " + arg(i).S + ")))"
			}
		}
		if cd.S == od.S && cv.S == ov.S {
			return tTrue
		}
		return mk("Bool", "(forall ((r Int)) (! (=> "+cond+" (and (= (select "+cd.S+" r) (select "+od.S+" r)) (= (select "+cv.S+" r) (select "+ov.S+" r)))) :pattern ((select "+cd.S+" r)) :pattern ((select "+cv.S+" r))))")
	case "oldUnchanged":
		// oldUnchanged(x.f): field f of every object that existed in the pre-state is as it was
		fe := e.Args[0]
		if fe.Op != "field" {
			c.fail("oldUnchanged expects obj.field")
		}
		obj := c.tr(fe.Args[0], false)
		n := c.fieldArrayName(obj, fe.Name)
		save := c.inOld
		c.inOld = false
		cur := c.heapArr(n)
		c.inOld = true
		old := c.heapArr(n)
		c.inOld = save
		if cur.S == old.S {
			return tTrue
		}
		base := c.st.alloc0
		if c.hasOld {
			base = c.oldAlloc
		}
		return mk("Bool", "(forall ((r Int)) (! (=> (<= r "+base.S+") (= (select "+cur.S+" r) (select "+old.S+" r))) :pattern ((select "+cur.S+" r))))")
	case "frameMap":
		// frameMap(m1, m2, ...): every map object of that type other than m1, m2, ... is as in the pre-state
		m := arg(0)
		mt, ok := m.T.Underlying().(*types.Map)
		if !ok {
			c.fail("frameMap: not a map")
		}
		ks, es := x.reg.SortOf(mt.Key()), x.reg.SortOf(mt.Elem())
		dn, vn := x.reg.MapArrays(ks, es)
		ds, vs := x.reg.heap[dn][1], x.reg.heap[vn][1]
		save := c.inOld
		c.inOld = false
		cd, cv := c.heapArr(dn), c.heapArr(vn)
		c.inOld = true
		od, ov := c.heapArr(dn), c.heapArr(vn)
		c.inOld = save
		for i := range e.Args {
			mi := arg(i)
			od = sto(od, mi, sel(cd, mi, ds))
			ov = sto(ov, mi, sel(cv, mi, vs))
		}
		return And(Eq(cd, od), Eq(cv, ov))
	case "heapOf":
		// heapOf("H_x"): the current (or old) version of a heap array, for passing to pure functions
		return c.heapArr(strArg(0))
	}
	if sf := x.specSigs[name]; sf != nil {
		var as []*Term
		for i := range e.Args {
			as = append(as, arg(i))
		}
		return c.callSpec(sf, as)
	}
	if sf := x.specSigs[c.pkgShort()+"."+name]; sf != nil {
		var as []*Term
		for i := range e.Args {
			as = append(as, arg(i))
		}
		return c.callSpec(sf, as)
	}
	c.fail("unknown function %q", name)
	return nil
}

func (c *SpecCtx) pkgShort() string {
	i := strings.LastIndex(c.pkgPath, "/")
	return c.pkgPath[i+1:]
}

// hasPrefix with a literal prefix is expanded byte-wise (quantifier free)
func (x *Exec) hasPrefix(s, p *Term, pe *Expr) *Term {
	lit := ""
	isLit := false
	if pe != nil && pe.Op == "str" {
		lit, isLit = pe.Name, true
	} else {
		for k, n := range x.reg.lits {
			if n == p.S {
				lit, isLit = k, true
			}
		}
		if p.S == "sempty" {
			isLit = true
		}
	}
	if isLit {
		cs := []*Term{Le(IntLit(int64(len(lit))), App("Int", "slen", s))}
		for i := 0; i < len(lit); i++ {
			cs = append(cs, Eq(App("Int", "sat", s, IntLit(int64(i))), IntLit(int64(lit[i]))))
		}
		return And(cs...)
	}
	x.reg.DeclFunc("has_prefix", []string{"Str", "Str"}, "Bool")
	x.reg.Axiom("(assert (forall ((s Str) (p Str)) (! (= (has_prefix s p) (and (<= (slen p) (slen s)) (= (ssub s 0 (slen p)) p))) :pattern ((has_prefix s p)))))")
	return App("Bool", "has_prefix", s, p)
}

// ---------------------------------------------------------------------------
// registration of spec functions and axioms

func (x *Exec) registerSpecs() error {
	// signatures first (so that bodies may refer to each other)
	for _, sf := range x.cs.Specs {
		sig := &specSig{name: sf.Name, pkg: sf.PkgPath, rec: sf.Rec}
		err := catchSpec(func() {
			for _, p := range sf.Params {
				s, t := x.sortOfTypeString(sf.PkgPath, p.Type)
				sig.params = append(sig.params, specParam{p.Name, s, t})
			}
			sig.ret, sig.retT = x.sortOfTypeString(sf.PkgPath, sf.Ret)
		})
		if err != nil {
			return fmt.Errorf("%s:%d: %v", sf.File, sf.Line, err)
		}
		if x.specSigs[sf.Name] != nil {
			return fmt.Errorf("%s:%d: duplicate pure func %s", sf.File, sf.Line, sf.Name)
		}
		x.specSigs[sf.Name] = sig
	}
	for _, sf := range x.cs.Specs {
		sig := x.specSigs[sf.Name]
		var argSorts, parNames []string
		for _, p := range sig.params {
			argSorts = append(argSorts, p.sort)
			parNames = append(parNames, "p_"+sanitize(p.name))
		}
		fd := &FuncDecl{Name: sf.Name, Args: argSorts, Ret: sig.ret, Par: parNames, Rec: sf.Rec, Opaque: sf.Opaque}
		if sf.Body != nil {
			err := catchSpec(func() {
				st := &State{heap: map[string]*Term{}, heap0: map[string]*Term{}}
				ctx := x.newSpecCtx(st, nil, nil)
				ctx.pkgPath = sf.PkgPath
				ctx.noState = !sf.Static
				ctx.inOld = sf.Static
				ctx.curSpec = sig
				ctx.clause = "pure func " + sf.Name
				if sf.Rec {
					ctx.fuelVar = "fuel_n"
				}
				for i, p := range sig.params {
					ctx.vars[p.name] = mkT(p.sort, parNames[i], p.T)
				}
				b := ctx.tr(sf.Body, false)
				if b.Sort == "Nil" {
					b = ctx.nilOf(mk(sig.ret, ""))
				}
				if b.Sort != sig.ret {
					ctx.fail("body has sort %s, declared %s", b.Sort, sig.ret)
				}
				fd.Def = b.S
				if sf.Static {
					sig.reads = map[string]bool{}
					for n := range st.heap0 {
						sig.reads[n] = true
					}
				}
			})
			if err != nil {
				return fmt.Errorf("%s:%d: %v", sf.File, sf.Line, err)
			}
		}
		x.reg.DefFunc(fd)
	}
	for _, ax := range x.cs.Axioms {
		err := catchSpec(func() {
			st := &State{heap: map[string]*Term{}, heap0: map[string]*Term{}}
			ctx := x.newSpecCtx(st, nil, nil)
			ctx.pkgPath = ax.PkgPath
			ctx.noState = true
			ctx.clause = "axiom " + ax.Name
			b := ctx.boolExpr(ax.E, false)
			x.reg.Axiom("(assert " + b.S + ") ; axiom " + ax.Name)
			x.trusted["axiom "+ax.Name+" ("+shortFile(ax.File)+")"] = true
		})
		if err != nil {
			return fmt.Errorf("%s:%d: %v", ax.File, ax.Line, err)
		}
	}
	return nil
}

func catchSpec(f func()) (err error) {
	defer func() {
		if r := recover(); r != nil {
			switch r := r.(type) {
			case specErr:
				err = fmt.Errorf("%s", r.msg)
			case unsupported:
				err = fmt.Errorf("%s", r.msg)
			default:
				panic(r)
			}
		}
	}()
	f()
	return nil
}

func sortedKeys(m map[string]bool) []string {
	var ks []string
	for k := range m {
		ks = append(ks, k)
	}
	sort.Strings(ks)
	return ks
}

// countingVar recognises `for i := 0; i < n; i++` (body without other writes of i): the local i, or nil.
func countingVar(li *LoopInfo) *ssa.Alloc {
	var cond *ssa.BinOp
	for _, in := range li.head.Instrs {
		if iff, ok := in.(*ssa.If); ok {
			cond, _ = iff.Cond.(*ssa.BinOp)
		}
	}
	if cond == nil || cond.Op != token.LSS {
		return nil
	}
	ld, ok := cond.X.(*ssa.UnOp)
	if !ok || ld.Op != token.MUL {
		return nil
	}
	a, ok := ld.X.(*ssa.Alloc)
	if !ok || a.Heap {
		return nil
	}
	// exactly one store inside the loop: i = i + 1
	n := 0
	for b := range li.body {
		for _, in := range b.Instrs {
			if s, ok := in.(*ssa.Store); ok && s.Addr == a {
				n++
				add, ok := s.Val.(*ssa.BinOp)
				if !ok || add.Op != token.ADD {
					return nil
				}
				l, ok := add.X.(*ssa.UnOp)
				if !ok || l.X != a {
					return nil
				}
				k, ok := add.Y.(*ssa.Const)
				if !ok || k.Value == nil || k.Value.String() != "1" {
					return nil
				}
			}
		}
	}
	if n != 1 {
		return nil
	}
	// initialised to 0 right before the loop: the only store outside the loop, in a predecessor of the head
	init := 0
	for _, b := range a.Parent().Blocks {
		if li.body[b] {
			continue
		}
		for _, in := range b.Instrs {
			if s, ok := in.(*ssa.Store); ok && s.Addr == a {
				k, ok := s.Val.(*ssa.Const)
				if !ok || k.Value == nil || k.Value.String() != "0" {
					return nil
				}
				init++
			}
		}
	}
	if init != 1 {
		return nil
	}
	return a
}
