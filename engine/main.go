package main

import (
	"flag"
	"fmt"
	"os"
	"path/filepath"
	"regexp"
	"runtime"
	"sort"
	"strconv"
	"strings"
	"time"

	"go/types"

	"golang.org/x/tools/go/packages"
	"golang.org/x/tools/go/ssa"
	"golang.org/x/tools/go/ssa/ssautil"
)

func (x *Exec) loadRepo(repo string) error {
	x.repoDir = repo
	witnessRepo = repo
	cfg := &packages.Config{Mode: packages.LoadAllSyntax, Dir: repo, BuildFlags: []string{"-tags=verif"},
		Env: append(os.Environ(), "GOFLAGS=-mod=mod", "GOPROXY=off", "GOSUMDB=off", "GOTOOLCHAIN=local")}
	pkgs, err := packages.Load(cfg, "./...")
	if err != nil {
		return err
	}
	if n := packages.PrintErrors(pkgs); n > 0 {
		return fmt.Errorf("%d package errors", n)
	}
	prog, spkgs := ssautil.AllPackages(pkgs, ssa.NaiveForm|ssa.GlobalDebug)
	prog.Build()
	x.prog = prog
	x.pkgs = pkgs
	x.spkgs = map[string]*ssa.Package{}
	x.repoPkgs = map[string]bool{}
	for i, p := range pkgs {
		if spkgs[i] != nil {
			x.spkgs[p.PkgPath] = spkgs[i]
			x.repoPkgs[p.PkgPath] = true
		}
	}
	seen := map[string]bool{}
	var walk func(p *packages.Package)
	walk = func(p *packages.Package) {
		if seen[p.PkgPath] {
			return
		}
		seen[p.PkgPath] = true
		x.allPkgs = append(x.allPkgs, p)
		for _, ip := range p.Imports {
			walk(ip)
		}
	}
	for _, p := range pkgs {
		walk(p)
	}
	x.indexFuncs()
	x.cs = &ContractSet{Funcs: map[string]*Contract{}}
	for _, p := range pkgs {
		if err := LoadContracts(p.Syntax, p.Fset, p.PkgPath, x.cs); err != nil {
			return err
		}
	}
	// contracts written as "pkgpath::Iface.Method" address external interfaces
	for k, c := range x.cs.Funcs {
		if i := strings.Index(c.Key, "::"); i >= 0 {
			delete(x.cs.Funcs, k)
			c.SpecPkg = c.PkgPath
			c.PkgPath, c.Key = c.Key[:i], c.Key[i+2:]
			x.cs.Funcs[c.PkgPath+"::"+c.Key] = c
		}
	}
	x.preregister()
	x.registerExternSpecs()
	return x.registerSpecs()
}

func NewExec() *Exec {
	return &Exec{reg: NewReg(), globalIds: map[string]int{}, funcIds: map[string]int{}, funcById: map[int]*ssa.Function{},
		loops: map[*ssa.Function]map[*ssa.BasicBlock]*LoopInfo{}, effects: map[*ssa.Function]map[string]bool{}, effBusy: map[*ssa.Function]bool{},
		maxPaths: 20000, trusted: map[string]bool{}, specSigs: map[string]*specSig{}, typeCache: map[string]types.Type{}}
}

func main() {
	repo := flag.String("repo", "/repo", "repository root")
	funcs := flag.String("funcs", "", "comma separated regexps over function keys (pkg.Func); empty = every function with a contract")
	tier := flag.String("tier", "quick", "quick|thorough")
	dump := flag.String("dump", "", "directory for failed queries")
	prop := flag.String("prop", "", "property id (uses obligations.map.json)")
	mapFile := flag.String("map", "", "obligations.map.json")
	evDir := flag.String("evidence", "", "evidence directory")
	list := flag.Bool("list", false, "list obligations only")
	verbose := flag.Bool("v", false, "verbose")
	known := flag.String("known", "", "known_findings.json")
	replayDir := flag.String("replay", "", "directory for replay files")
	localsFile := flag.String("locals", "", "locals.baseline.json: the variable names the contracts were written against (default: next to the binary's parent directory)")
	emitLocals := flag.String("emit-locals", "", "write the current variable declarations of all functions under contract to this file and exit")
	flag.Parse()
	t0 := time.Now()
	x := NewExec()
	if err := x.loadRepo(*repo); err != nil {
		fmt.Fprintln(os.Stderr, "govc: load:", err)
		os.Exit(2)
	}
	if *emitLocals != "" {
		if err := x.emitLocals(*emitLocals); err != nil {
			fmt.Fprintln(os.Stderr, "govc:", err)
			os.Exit(2)
		}
		return
	}
	if *localsFile == "" {
		if exe, err := os.Executable(); err == nil {
			*localsFile = filepath.Join(filepath.Dir(filepath.Dir(exe)), "locals.baseline.json")
		}
	}
	x.applyRenames(*localsFile)
	tLoad := time.Since(t0)
	if *prop != "" {
		os.Exit(x.runProperty(*prop, *mapFile, *tier, *evDir, *dump, *known, *replayDir, *verbose, t0))
	}
	var res []*regexp.Regexp
	for _, f := range strings.Split(*funcs, ",") {
		if f != "" {
			res = append(res, regexp.MustCompile(f))
		}
	}
	reports := x.generate(func(name string) bool {
		if len(res) == 0 {
			return true
		}
		for _, r := range res {
			if r.MatchString(name) {
				return true
			}
		}
		return false
	})
	tGen := time.Since(t0) - tLoad
	for _, r := range reports {
		fmt.Printf("func %-45s paths=%-4d obligations=%-4d %s\n", r.Key, r.Paths, r.Obls, r.Err)
		for _, w := range r.Warnings {
			fmt.Println("   warning:", w)
		}
	}
	if *list {
		for _, o := range x.obls {
			fmt.Println(o.FullName(), o.Pos)
		}
		return
	}
	opts := defaultOpts(*tier)
	opts.DumpDir = *dump
	rs := x.solveAll(x.obls, opts)
	if sl := os.Getenv("GOVC_SLOW"); sl != "" {
		thr := int64(2500)
		if n, err := strconv.ParseInt(sl, 10, 64); err == nil && n > 1 {
			thr = n
		}
		for _, r := range rs {
			if int64(r.Ms) > thr && r.Obl.Kind != "cover" {
				fmt.Printf("slow %6dms %-8s %-12s %s path=%v\n", r.Ms, r.Status, r.Backend, r.Obl.FullName(), lastN(r.Obl.Path, 6))
			}
		}
	}
	sums := summarize(rs)
	bad := 0
	for _, s := range sums {
		mark := "ok  "
		if s.Status == "FAILED" || s.Status == "VACUOUS" {
			mark = "FAIL"
			bad++
		}
		if *verbose || mark == "FAIL" {
			fmt.Printf("%s %-70s %d/%d %v %dms\n", mark, s.Name, s.Proved, s.Checks, s.Backends, s.Ms)
		}
		for i, f := range s.Failed {
			if i >= 3 {
				break
			}
			fmt.Printf("       %s at %s path=%v\n", f.Status, f.Obl.Pos, lastN(f.Obl.Path, 12))
			if f.Status == "error" || f.Status == "unsupported" {
				fmt.Printf("       %s\n", strings.TrimSpace(firstLines(f.Output, 3)))
			}
			if *dump != "" {
				p := dumpQuery(*dump, fmt.Sprintf("%s-%d", s.Name, i), f.Query)
				fmt.Printf("       query: %s\n", p)
			}
		}
	}
	fmt.Printf("load %.1fs, vcgen %.1fs, total %.1fs; %d obligations (%d path checks), %d failed\n", tLoad.Seconds(), tGen.Seconds(), time.Since(t0).Seconds(), len(sums), len(rs), bad)
	if bad > 0 {
		os.Exit(1)
	}
}

func defaultOpts(tier string) SolveOpts {
	o := SolveOpts{Tier: tier, Workers: runtime.NumCPU(), FirstMs: 3000, SecondMs: 15000}
	if tier == "thorough" {
		o.FirstMs, o.SecondMs = 10000, 60000
	}
	return o
}

func lastN(s []string, n int) []string {
	if len(s) > n {
		return s[len(s)-n:]
	}
	return s
}

func firstLines(s string, n int) string {
	ls := strings.Split(s, "\n")
	if len(ls) > n {
		ls = ls[:n]
	}
	return strings.Join(ls, "\n")
}

// generate produces the obligations of the functions selected by want. The generator always walks *every* function
// under contract, twice: the first walk only fills the registry (heap arrays, sorts, literals, uninterpreted functions are
// registered on first use), the second produces the obligations against the complete registry. The text of a query is
// thereby a function of the program and of the function it belongs to, not of the selection or of the order of the walk;
// and a callback that may change "every array" changes every array the program uses, not only those seen so far.
func (x *Exec) generate(want func(name string) bool) []*FuncReport {
	all := func(string) bool { return true }
	x.generate1(all, all)
	x.obls, x.trusted = nil, map[string]bool{}
	return x.generate1(all, want)
}

// generate1 walks the functions selected by walk and keeps the obligations, reports and trusted-base items of those
// selected by want.
func (x *Exec) generate1(walk, keep func(name string) bool) []*FuncReport {
	var reports []*FuncReport
	want := walk
	var mark func() func(name string)
	mark = func() func(name string) {
		nob, nrep := len(x.obls), len(reports)
		saved := map[string]bool{}
		for k, v := range x.trusted {
			saved[k] = v
		}
		return func(name string) {
			if !keep(name) {
				x.obls, reports, x.trusted = x.obls[:nob], reports[:nrep], saved
			}
		}
	}
	keys := x.cs.Keys()
	for _, k := range keys {
		con := x.cs.Funcs[k]
		fn := x.allFuncs[k]
		name := shortPkg(con.PkgPath) + "." + con.Key
		if fn == nil {
			// interface method contract, or a contract for a function that no longer exists (removed or inlined by a
			// refactoring): nothing to verify; the callers are verified against whatever they call now
			if !x.isIfaceContract(con) && !strings.HasPrefix(con.Key, "callback:") && keep(name) {
				reports = append(reports, &FuncReport{Key: name, Err: "contract for a function that does not exist (skipped)"})
				// ... unless it is part of the exported API: an entry point the properties speak about cannot be inlined away, and
				// one whose receiver changed (pointer to value) no longer does what its contract says to the caller's object
				if base := con.Key[strings.LastIndex(con.Key, ".")+1:]; base != "" && base[0] >= 'A' && base[0] <= 'Z' && !strings.Contains(base, "$") {
					x.obls = append(x.obls, &Obligation{Func: name, Kind: "subset", Name: "exists", Goal: "false", Synt: true,
						Src: "the exported function " + con.Key + " under contract does not exist any more (removed, renamed, or its receiver changed)"})
				}
			}
			continue
		}
		if !want(name) {
			continue
		}
		if fn.Parent() != nil && fn.Parent().Synthetic == "" && len(con.Ensures)+len(con.Panics)+len(con.Exits) == 0 {
			continue // closures: loop invariants only, used while inlining (the literals of package-level variables, and literals
			// whose contract states a postcondition, are functions of their own)
		}
		if con.Trusted {
			if keep(name) {
				x.trusted["trusted contract: "+name] = true
				reports = append(reports, &FuncReport{Key: name, Trusted: true})
			}
			continue
		}
		if con.Inline && len(con.Ensures) == 0 && len(con.Requires) == 0 {
			continue
		}
		done := mark()
		reports = append(reports, x.verifyFunction(fn, con, nil, nil))
		for _, ic := range x.refinementTargets(fn) {
			reports = append(reports, x.verifyFunction(fn, con, ic, fn.Signature.Recv().Type()))
		}
		done(name)
	}
	// methods without own contract that must refine an interface contract
	for _, k := range sortedFuncKeys(x.allFuncs) {
		fn := x.allFuncs[k]
		if x.cs.Funcs[k] != nil || fn.Signature.Recv() == nil {
			continue
		}
		name := shortPkg(k[:strings.Index(k, "::")]) + "." + k[strings.Index(k, "::")+2:]
		if !want(name) || helperPkg(k[:strings.Index(k, "::")]) {
			continue
		}
		done := mark()
		for _, ic := range x.refinementTargets(fn) {
			reports = append(reports, x.verifyFunction(fn, nil, ic, fn.Signature.Recv().Type()))
		}
		done(name)
	}
	for _, l := range x.cs.Lemmas {
		if want("lemma." + l.Name) {
			done := mark()
			reports = append(reports, x.verifyLemma(l))
			done("lemma." + l.Name)
		}
	}
	if keep("sweep.frame") {
		n := len(x.obls)
		x.frameSweep()
		reports = append(reports, &FuncReport{Key: "sweep.frame", Obls: len(x.obls) - n})
	}
	sort.SliceStable(reports, func(i, j int) bool { return reports[i].Key < reports[j].Key })
	return reports
}

func (x *Exec) isIfaceContract(c *Contract) bool {
	return x.ifaceMethod(c, nil) != nil
}

func shortPkg(p string) string {
	return filepath.Base(p)
}

// helperPkg: test-support and drawing packages of the repository; their types are not part of the library proper
func helperPkg(path string) bool {
	return strings.HasSuffix(path, "test") || strings.HasSuffix(path, "dot")
}

// preregister numbers the dynamic types and the function values of the program in a fixed order (by name), before any
// contract is translated, so that the numbers in queries do not depend on the order of verification.
func (x *Exec) preregister() {
	for _, b := range []types.BasicKind{types.Bool, types.Int, types.Int64, types.Uint8, types.Int32, types.Float64, types.String} {
		x.reg.Tag(types.Typ[b])
	}
	var paths []string
	for p := range x.spkgs {
		paths = append(paths, p)
	}
	sort.Strings(paths)
	for _, p := range paths {
		sc := x.spkgs[p].Pkg.Scope()
		for _, n := range sc.Names() { // sorted
			if tn, ok := sc.Lookup(n).(*types.TypeName); ok && !tn.IsAlias() {
				if _, isIface := tn.Type().Underlying().(*types.Interface); isIface {
					continue
				}
				x.reg.Tag(tn.Type())
				x.reg.Tag(types.NewPointer(tn.Type()))
			}
		}
	}
	for _, k := range sortedFuncKeys(x.allFuncs) {
		x.funcTerm(x.allFuncs[k])
	}
}
