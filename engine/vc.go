package main

import (
	"bytes"
	"context"
	"crypto/sha1"
	"fmt"
	"os"
	"os/exec"
	"path/filepath"
	"regexp"
	"sort"
	"strings"
	"sync"
	"time"
)

type CheckResult struct {
	Obl     *Obligation
	Status  string // unsat, sat, unknown, timeout, error
	Backend string
	Ms      int64
	Output  string
	Query   string
}

type solverSpec struct {
	name string
	cmd  []string
}

// solverCmd: the budget is given in "milliseconds on an idle machine" and enforced through the solvers' deterministic
// resource counters (rlimit), so that a verdict does not depend on how loaded the machine is; the wall-clock limits are
// only a generous safety net (loadFactor times the budget).
const loadFactor = 8

func solverCmd(name string, budgetMs int) solverSpec {
	wall := fmt.Sprintf("-t:%d", budgetMs*loadFactor)
	switch name {
	case "z3":
		return solverSpec{"z3-4.8.12", []string{"z3", "-in", "-smt2", wall, fmt.Sprintf("rlimit=%d", budgetMs*6700)}}
	case "z3-seed2", "z3-seed5":
		// the same solver on another search path: quantifier instantiation order makes some goals a matter of luck
		sd := name[len(name)-1:]
		return solverSpec{"z3-4.8.12", []string{"z3", "-in", "-smt2", wall, fmt.Sprintf("rlimit=%d", budgetMs*6700), "smt.random_seed=" + sd, "sat.random_seed=" + sd}}
	case "z3-new":
		// z3 5.1 spends long stretches without touching its resource counter: its wall limit is kept tight (3x)
		return solverSpec{"z3-5.1.0", []string{"z3-new", "-in", "-smt2", fmt.Sprintf("-t:%d", budgetMs*3), fmt.Sprintf("rlimit=%d", budgetMs*2500)}}
	case "cvc5":
		return solverSpec{"cvc5-1.0.3", []string{"cvc5", "--lang=smt2", fmt.Sprintf("--tlimit=%d", budgetMs*2), "-"}}
	}
	panic("unknown solver " + name)
}

func (x *Exec) buildQuery(pr *Pruner, o *Obligation) string {
	var sb strings.Builder
	for _, r := range o.Reveal {
		sb.WriteString(x.reg.RevealAxiom(r))
	}
	for _, d := range o.Decls {
		sb.WriteString(d)
		sb.WriteString("\n")
	}
	for _, a := range o.Assume {
		sb.WriteString("(assert ")
		sb.WriteString(a)
		sb.WriteString(")\n")
	}
	sb.WriteString("(assert (not ")
	sb.WriteString(o.Goal)
	sb.WriteString("))\n(check-sat)\n")
	body := sb.String()
	return pr.Prune(body) + body
}

// runSolver gives the solver its resource budget (rlimit, in s.cmd) under a wall-clock safety net. When the net fires
// although the budget was not used up -- the machine is starved -- the run is repeated once with three times the net: a
// verdict must not depend on what else runs on the machine.
func runSolver(ctx context.Context, s solverSpec, query string, hardMs int) (status string, out string, ms int64) {
	status, out, ms, starved := runSolver1(ctx, s, query, hardMs)
	if starved && ctx.Err() == nil {
		var ms2 int64
		status, out, ms2, _ = runSolver1(ctx, s, query, hardMs*3)
		ms += ms2
	}
	return status, out, ms
}

func runSolver1(ctx context.Context, s solverSpec, query string, hardMs int) (status string, out string, ms int64, starved bool) {
	status, out, ms = runSolver0(ctx, s, query, hardMs, &starved)
	return
}

func runSolver0(ctx context.Context, s solverSpec, query string, hardMs int, starved *bool) (status string, out string, ms int64) {
	t0 := time.Now()
	cctx, cancel := context.WithTimeout(ctx, time.Duration(hardMs)*time.Millisecond)
	defer cancel()
	cmd := exec.CommandContext(cctx, s.cmd[0], s.cmd[1:]...)
	cmd.Stdin = strings.NewReader(query)
	var buf bytes.Buffer
	cmd.Stdout = &buf
	cmd.Stderr = &buf
	err := cmd.Run()
	ms = time.Since(t0).Milliseconds()
	out = buf.String()
	first := ""
	for _, ln := range strings.Split(out, "\n") {
		ln = strings.TrimSpace(ln)
		if ln == "unsat" || ln == "sat" || ln == "unknown" || ln == "timeout" {
			first = ln
			break
		}
	}
	switch first {
	case "unsat", "sat", "unknown":
		return first, out, ms
	case "timeout":
		return "timeout", out, ms
	}
	if cctx.Err() != nil {
		if ctx.Err() == nil {
			*starved = true // killed by the wall-clock net, not cancelled by a sibling that already decided the goal
		}
		return "timeout", out, ms
	}
	if strings.Contains(out, "error") || err != nil {
		if strings.Contains(out, "interrupted by timeout") || strings.Contains(out, "timeout") {
			return "timeout", out, ms
		}
		return "error", out, ms
	}
	return "unknown", out, ms
}

type SolveOpts struct {
	Tier     string
	Workers  int
	FirstMs  int
	SecondMs int
	DumpDir  string
	// Deep, when set in the thorough tier, selects the obligations that get the thorough treatment (long budgets, every
	// back end on every path); the others (the rest of the property's dependency cone) are decided as in the quick tier
	Deep func(o *Obligation) bool
}

func (opts SolveOpts) forObligation(o *Obligation) SolveOpts {
	if opts.Tier == "thorough" && opts.Deep != nil && !opts.Deep(o) {
		opts.Tier, opts.FirstMs, opts.SecondMs = "quick", 3000, 15000
	}
	return opts
}

// solveAll discharges every obligation; cover obligations are expected NOT to be unsat.
func (x *Exec) solveAll(obls []*Obligation, opts SolveOpts) []*CheckResult {
	prelude := NewPruner("(set-option :produce-models false)\n" + x.reg.Prelude())
	results := make([]*CheckResult, len(obls))
	type job struct{ i int }
	jobs := make(chan job)
	var wg sync.WaitGroup
	cache := map[[20]byte]*CheckResult{}
	failedObl := map[string]bool{}
	failFast := os.Getenv("GOVC_FAILFAST") != "" // bulk runs over mutants: the first failed obligation settles the verdict
	failedIgnored := map[string]bool{}
	var failFastIgnore *regexp.Regexp // obligations known to fail on the unchanged tree do not settle anything
	if v := os.Getenv("GOVC_FAILFAST_IGNORE"); v != "" {
		failFastIgnore = regexp.MustCompile(v)
	}
	var mu sync.Mutex
	for w := 0; w < opts.Workers; w++ {
		wg.Add(1)
		go func() {
			defer wg.Done()
			for j := range jobs {
				o := obls[j.i]
				opts := opts.forObligation(o)
				q := x.buildQuery(prelude, o)
				h := sha1.Sum([]byte(q))
				if d := os.Getenv("GOVC_DUMPALL"); d != "" {
					os.WriteFile(filepath.Join(d, fmt.Sprintf("%s__%x.smt2", sanitizeFile(o.FullName()), h[:6])), []byte(q), 0o644)
				}
				mu.Lock()
				if c, ok := cache[h]; ok {
					mu.Unlock()
					results[j.i] = &CheckResult{Obl: o, Status: c.Status, Backend: c.Backend, Ms: 0, Output: c.Output, Query: q}
					continue
				}
				mu.Unlock()
				// quick tier: one refuted / undecided path is enough to fail an obligation; its other paths are not tried
				if opts.Tier != "thorough" && o.Kind != "cover" {
					mu.Lock()
					skip := failedObl[o.FullName()] || failedIgnored[o.FullName()] || (failFast && len(failedObl) > 0)
					mu.Unlock()
					if skip {
						results[j.i] = &CheckResult{Obl: o, Status: "skipped", Query: q, Output: "not tried: another path of this obligation already failed"}
						continue
					}
				}
				// optional on-disk cache (development aid for bulk runs over many mutants; the registered checks do not set it):
				// queries are canonical and budgets deterministic, so the verdict of a query text is a fixed fact
				var r *CheckResult
				cdir := os.Getenv("GOVC_CACHE")
				cfile := ""
				if cdir != "" && !o.Synt {
					cfile = filepath.Join(cdir, fmt.Sprintf("%x-%s", h, opts.Tier))
					if b, err := os.ReadFile(cfile); err == nil {
						f := strings.SplitN(strings.TrimSpace(string(b)), " ", 2)
						if len(f) == 2 {
							r = &CheckResult{Obl: o, Status: f[0], Backend: f[1], Query: q, Output: "(cached verdict)"}
						}
					}
				}
				if r == nil {
					r = x.solveOne(o, q, opts)
					if cfile != "" && (r.Status == "unsat" || r.Status == "sat" || r.Status == "unknown" || r.Status == "timeout") {
						os.WriteFile(cfile, []byte(r.Status+" "+r.Backend+"\n"), 0o644)
					}
				}
				mu.Lock()
				cache[h] = r
				if r.Status != "unsat" && o.Kind != "cover" {
					if failFastIgnore != nil && failFastIgnore.MatchString(o.FullName()) {
						failedIgnored[o.FullName()] = true
					} else {
						failedObl[o.FullName()] = true
					}
				}
				mu.Unlock()
				results[j.i] = r
			}
		}()
	}
	for i := range obls {
		jobs <- job{i}
	}
	close(jobs)
	wg.Wait()
	return results
}

func (x *Exec) solveOne(o *Obligation, q string, opts SolveOpts) *CheckResult {
	res := &CheckResult{Obl: o, Query: q}
	if o.Goal == "false" && o.Kind == "subset" {
		res.Status = "unsupported"
		res.Output = o.Src
		return res
	}
	if o.Synt {
		res.Backend = "ssa-scan"
		if o.Goal == "true" {
			res.Status = "unsat"
		} else {
			res.Status = "sat"
			res.Output = o.Src
		}
		return res
	}
	ctx := context.Background()
	// stage 1: z3 4.8.12, short timeout
	first := opts.FirstMs
	if o.Kind == "cover" {
		first = 1000
	}
	st, out, ms := runSolver(ctx, solverCmd("z3", first), q, first*loadFactor+5000)
	res.Status, res.Backend, res.Ms, res.Output = st, "z3-4.8.12", ms, out
	if st == "unsat" || (o.Kind == "cover" && st == "sat") {
		if opts.Tier != "thorough" || o.Kind == "cover" {
			return res
		}
	}
	if o.Kind == "cover" {
		// unknown/timeout on `false`: not refuted, which is what a cover needs; unsat: vacuous
		return res
	}
	// stage 2: race z3-new, cvc5 and two reseeded runs of z3 4.8.12
	type r2 struct {
		st, out, be string
		ms          int64
	}
	cctx, cancel := context.WithCancel(ctx)
	racers := []string{"z3-new", "cvc5", "z3-seed2", "z3-seed5"}
	if opts.Tier == "thorough" && st == "unsat" {
		// already proved: the other two solvers are consulted as a cross-check (a `sat` from either is a disagreement)
		racers = []string{"z3-new", "cvc5"}
	}
	ch := make(chan r2, len(racers))
	for _, s := range racers {
		go func(s string) {
			budget := opts.SecondMs
			if opts.Tier == "thorough" && st == "unsat" {
				budget = opts.FirstMs
			}
			if s == "z3-new" && opts.Tier != "thorough" {
				// on this code base z3 5.1 proves a goal within a fraction of a second or not at all
				budget = opts.FirstMs * 2
			}
			sp := solverCmd(s, budget)
			st, out, ms := runSolver(cctx, sp, q, budget*loadFactor+5000)
			ch <- r2{st, out, sp.name, ms}
		}(s)
	}
	got := 0
	var all []r2
	for got < len(racers) {
		r := <-ch
		got++
		all = append(all, r)
		if r.st == "unsat" && opts.Tier != "thorough" {
			cancel()
			res.Status, res.Backend, res.Ms, res.Output = "unsat", r.be, res.Ms+r.ms, r.out
			// drain
			go func(n int) {
				for i := 0; i < n; i++ {
					<-ch
				}
			}(len(racers) - got)
			return res
		}
	}
	cancel()
	// thorough: record every backend's verdict; discharged when any says unsat and none says sat
	verdicts := []string{res.Backend + "=" + res.Status}
	anyUnsat := res.Status == "unsat"
	anySat := res.Status == "sat"
	best := res.Backend
	for _, r := range all {
		verdicts = append(verdicts, r.be+"="+r.st)
		if r.st == "unsat" {
			if !anyUnsat {
				best = r.be
			}
			anyUnsat = true
		}
		if r.st == "sat" {
			anySat = true
			res.Output = r.out
		}
		res.Ms += r.ms
	}
	switch {
	case anyUnsat && anySat:
		res.Status = "disagree"
	case anyUnsat:
		res.Status = "unsat"
		res.Backend = best
	case anySat:
		res.Status = "sat"
	default:
		if res.Status == "unsat" {
			res.Status = "unknown"
		}
	}
	res.Output = strings.Join(verdicts, " ") + "\n" + res.Output
	return res
}

// group results by obligation name
type OblSummary struct {
	Name     string         `json:"name"`
	Func     string         `json:"function"`
	Kind     string         `json:"kind"`
	Checks   int            `json:"path_checks"`
	Proved   int            `json:"proved"`
	Backends []string       `json:"backends"`
	Ms       int64          `json:"solver_ms"`
	Status   string         `json:"status"`
	Src      string         `json:"clause,omitempty"`
	Failed   []*CheckResult `json:"-"`
}

func summarize(rs []*CheckResult) []*OblSummary {
	m := map[string]*OblSummary{}
	var order []string
	for _, r := range rs {
		n := r.Obl.FullName()
		s := m[n]
		if s == nil {
			s = &OblSummary{Name: n, Func: r.Obl.Func, Kind: r.Obl.Kind, Src: r.Obl.Src}
			m[n] = s
			order = append(order, n)
		}
		s.Checks++
		s.Ms += r.Ms
		if r.Obl.Kind == "cover" {
			// a cover succeeds when at least one path is NOT refuted
			if r.Status != "unsat" {
				s.Proved++
			}
			continue
		}
		if r.Status == "unsat" {
			s.Proved++
			found := false
			for _, b := range s.Backends {
				if b == r.Backend {
					found = true
				}
			}
			if !found {
				s.Backends = append(s.Backends, r.Backend)
			}
		} else if r.Status != "skipped" {
			s.Failed = append(s.Failed, r)
		}
	}
	var out []*OblSummary
	for _, n := range order {
		s := m[n]
		if s.Kind == "cover" {
			if s.Proved > 0 {
				s.Status = "reachable"
			} else {
				s.Status = "VACUOUS"
			}
		} else if s.Proved == s.Checks {
			s.Status = "discharged"
		} else if len(s.Failed) == 0 {
			s.Status = "SKIPPED" // bulk (fail-fast) runs only: not tried because another obligation had already failed
		} else {
			s.Status = "FAILED"
		}
		sort.Strings(s.Backends)
		out = append(out, s)
	}
	return out
}

func dumpQuery(dir, name, q string) string {
	os.MkdirAll(dir, 0o755)
	p := filepath.Join(dir, sanitizeFile(name)+".smt2")
	os.WriteFile(p, []byte(q), 0o644)
	return p
}

func sanitizeFile(s string) string {
	var sb strings.Builder
	for _, c := range s {
		switch {
		case c >= 'a' && c <= 'z', c >= 'A' && c <= 'Z', c >= '0' && c <= '9', c == '_', c == '-', c == '.':
			sb.WriteRune(c)
		default:
			sb.WriteRune('_')
		}
	}
	return sb.String()
}
