package main

// Contract files: comment-only Go files (build tag verif) whose //@ lines carry
// function contracts, loop invariants, spec functions and axioms.
//
//   //@ func Tokenize
//   //@   requires name: expr
//   //@   ensures  name: expr            (continuation lines are indented further and start with no keyword)
//   //@   panics   name: expr            (postcondition of an exceptional exit; `panicval` is the value)
//   //@   loop 1 invariant name: expr
//   //@   loop 1 decreases expr
//   //@   decreases expr                 (recursion measure)
//   //@   inline | trusted
//   //@ pure func name(a T, b U) R = expr
//   //@ pure rec func name(a T) R = expr (unfolding axiom with a trigger on the application)
//   //@ pure func name(a T) R             (uninterpreted)
//   //@ axiom name: expr
//   //@ lemma name(a T, ...) requires ... ensures ...   (checked: body-less lemmas are proved directly)

import (
	"fmt"
	"go/ast"
	"go/token"
	"regexp"
	"sort"
	"strconv"
	"strings"
)

type Clause struct {
	Name string
	E    *Expr
	Src  string
	Line int
	File string
}

type LoopSpec struct {
	Invariants []Clause
	Decreases  []Clause
	Steps      []Clause // checked at every back edge; startTrace(n) is the trace at the head of loop n in the current iteration
	Exits      []Clause // checked on every edge that leaves the loop (exhaustion or break); exhausted() tells which
}

type GhostParam struct {
	Name string
	Type string
}

type Contract struct {
	Key      string // "Tokenize", "(*opt).Match", "Matcher.Match", "seq$1"
	PkgPath  string
	Requires []Clause
	Ensures  []Clause
	Panics   []Clause
	Exits    []Clause
	MayExit  bool
	Loops    map[int]*LoopSpec
	Decr     []Clause
	Inline   bool
	Trusted  bool
	NoPanic  bool
	File     string
	Line     int
	Lets     []Clause // `let name = expr` evaluated at entry (ghost abbreviations)
	MayPanic bool    // `panics` clause present or `maypanic`
	Logged   bool    // interface method whose invocations are recorded in the ghost trace (user-implementable protocol)
	UseLemmas []string // proved lemmas whose statements are available (as quantified facts) in this function's obligations
	AssumePre []string // preconditions of callees ("Callee/name") that are assumed, not proved, at call sites in this function
	SpecPkg  string   // package whose scope resolves type names in the clauses (differs from PkgPath for external interfaces)
	NoRefine bool     // interface contract that names results (oracle functions): implementations are not checked against it
	Reveal   []string // opaque spec functions whose definitions are visible while this contract is being verified
	ParamNames []string // interface method contracts: names for the (often unnamed) parameters, `func I.M(a, b)`
	Modifies []string
}

type SpecFunc struct {
	Name    string
	Params  []Binder
	Ret     string
	Body    *Expr
	Rec     bool
	Opaque  bool // body visible only to contracts that `reveal` it
	Static  bool // may read the heap as it is on entry of the function under verification (arrays that function never writes)
	PkgPath string
	File    string
	Line    int
	Src     string
}

type AxiomDecl struct {
	Name    string
	E       *Expr
	PkgPath string
	Src     string
	File    string
	Line    int
}

type LemmaDecl struct {
	Name     string
	Params   []Binder
	Requires []Clause
	Ensures  []Clause
	PkgPath  string
	File     string
	Line     int
	// proof hints: `use expr` clauses are asserted facts that must themselves be proved first (assert-then-assume)
	Uses []Clause
	Reveal []string
	Triggers []Clause // `trigger expr` terms forming the instantiation pattern when the lemma is used
	Induct string // parameter name for induction on naturals
}

type NoReturn struct {
	Kind    string // "var" or "field"
	Name    string // global name, or Struct.Field
	PkgPath string
	Arrays  []string
}

type ContractSet struct {
	Mutators  []NoReturn // callbacks (struct fields holding user functions) that may reconfigure the object graph through the public API
	NoReturns []NoReturn
	Funcs  map[string]*Contract // key: pkgpath + "::" + Key
	Specs  []*SpecFunc
	Axioms []*AxiomDecl
	Lemmas []*LemmaDecl
	Files  []string
}

var kwRe = regexp.MustCompile(`^(func|pure|axiom|lemma|requires|ensures|panics|exits|loop|decreases|inline|trusted|nopanic|let|maypanic|mayexit|modifies|use|induct|logged|reveal|noreturn|norefine|mutator|assumepre|uselemma|trigger|end)\b`)

type rawLine struct {
	text string
	line int
}

func LoadContracts(files []*ast.File, fset *token.FileSet, pkgPath string, cs *ContractSet) error {
	for _, f := range files {
		fname := fset.Position(f.Pos()).Filename
		if !strings.HasSuffix(fname, "_verif.go") {
			continue
		}
		cs.Files = append(cs.Files, fname)
		var lines []rawLine
		for _, cg := range f.Comments {
			for _, c := range cg.List {
				if strings.HasPrefix(c.Text, "//@") {
					lines = append(lines, rawLine{strings.TrimRight(c.Text[3:], " \t"), fset.Position(c.Pos()).Line})
				}
			}
		}
		if err := parseContractLines(lines, fname, pkgPath, cs); err != nil {
			return err
		}
	}
	return nil
}

// statements: a line starting (after trimming) with a keyword begins a new statement; others continue.
func parseContractLines(lines []rawLine, fname, pkgPath string, cs *ContractSet) error {
	type stmt struct {
		text string
		line int
	}
	var stmts []stmt
	for _, l := range lines {
		t := strings.TrimSpace(l.text)
		if t == "" || strings.HasPrefix(t, "//") {
			continue
		}
		// strip trailing comment "   // ..."
		if i := strings.Index(t, "  //"); i >= 0 {
			t = strings.TrimSpace(t[:i])
		}
		if kwRe.MatchString(t) || len(stmts) == 0 {
			stmts = append(stmts, stmt{t, l.line})
		} else {
			stmts[len(stmts)-1].text += " " + t
		}
	}
	var cur *Contract
	var curLemma *LemmaDecl
	mkClause := func(body string, line int, defName string) (Clause, error) {
		name := defName
		// optional "name:" prefix (identifier followed by colon, not part of ?:)
		if m := regexp.MustCompile(`^([A-Za-z_][A-Za-z0-9_\-/.]*)\s*:\s`).FindStringSubmatch(body + " "); m != nil && m[1] != "forall" && m[1] != "exists" {
			name = m[1]
			body = strings.TrimSpace(body[len(m[0])-1:])
		}
		e, err := ParseExpr(body)
		if err != nil {
			return Clause{}, fmt.Errorf("%s:%d: %v", fname, line, err)
		}
		return Clause{Name: name, E: e, Src: body, Line: line, File: fname}, nil
	}
	for _, s := range stmts {
		m := kwRe.FindString(s.text)
		rest := strings.TrimSpace(s.text[len(m):])
		switch m {
		case "func":
			key := rest
			var pnames []string
			if i := strings.LastIndex(key, "("); i > 0 && strings.HasSuffix(key, ")") && !strings.HasPrefix(key, "(") || (i > 0 && strings.HasSuffix(key, ")") && strings.Count(key, "(") == 2) {
				for _, n := range strings.Split(key[i+1:len(key)-1], ",") {
					if n = strings.TrimSpace(n); n != "" {
						pnames = append(pnames, n)
					}
				}
				key = strings.TrimSpace(key[:i])
			}
			cur = &Contract{Key: key, PkgPath: pkgPath, Loops: map[int]*LoopSpec{}, File: fname, Line: s.line, ParamNames: pnames}
			curLemma = nil
			if old := cs.Funcs[pkgPath+"::"+key]; old != nil {
				return fmt.Errorf("%s:%d: duplicate contract for %s", fname, s.line, key)
			}
			cs.Funcs[pkgPath+"::"+key] = cur
		case "end":
			cur = nil
			curLemma = nil
		case "pure":
			sf, err := parseSpecFunc(rest, fname, s.line)
			if err != nil {
				return err
			}
			sf.PkgPath = pkgPath
			cs.Specs = append(cs.Specs, sf)
			cur, curLemma = nil, nil
		case "axiom":
			c, err := mkClause(rest, s.line, fmt.Sprintf("axiom@%d", s.line))
			if err != nil {
				return err
			}
			cs.Axioms = append(cs.Axioms, &AxiomDecl{Name: c.Name, E: c.E, PkgPath: pkgPath, Src: c.Src, File: fname, Line: s.line})
			cur, curLemma = nil, nil
		case "lemma":
			// lemma name(a T, b U)
			i := strings.Index(rest, "(")
			j := strings.LastIndex(rest, ")")
			if i < 0 || j < i {
				return fmt.Errorf("%s:%d: bad lemma header", fname, s.line)
			}
			bs, err := parseBinders(rest[i+1 : j])
			if err != nil {
				return fmt.Errorf("%s:%d: %v", fname, s.line, err)
			}
			curLemma = &LemmaDecl{Name: strings.TrimSpace(rest[:i]), Params: bs, PkgPath: pkgPath, File: fname, Line: s.line}
			cs.Lemmas = append(cs.Lemmas, curLemma)
			cur = nil
		case "noreturn":
			parts := strings.Fields(rest)
			if len(parts) != 2 || (parts[0] != "var" && parts[0] != "field") {
				return fmt.Errorf("%s:%d: noreturn var <name> | noreturn field <Struct.Field>", fname, s.line)
			}
			cs.NoReturns = append(cs.NoReturns, NoReturn{Kind: parts[0], Name: parts[1], PkgPath: pkgPath})
			cur, curLemma = nil, nil
		case "mutator":
			// mutator field Struct.Field : H_a, H_b, ...   (heap arrays a call through this field may change)
			parts := strings.SplitN(rest, ":", 2)
			hd := strings.Fields(parts[0])
			if len(hd) != 2 || hd[0] != "field" || len(parts) != 2 {
				return fmt.Errorf("%s:%d: mutator field <Struct.Field> : <heap arrays>", fname, s.line)
			}
			m := NoReturn{Kind: "field", Name: hd[1], PkgPath: pkgPath}
			m.Arrays = strings.Fields(strings.ReplaceAll(parts[1], ",", " "))
			cs.Mutators = append(cs.Mutators, m)
			cur, curLemma = nil, nil
		case "mayexit":
			if cur != nil {
				cur.MayExit = true
			}
		case "requires", "ensures", "panics", "exits", "decreases", "let", "use":
			def := fmt.Sprintf("%s@%d", m, s.line)
			c, err := mkClause(rest, s.line, def)
			if m == "let" {
				// let name = expr
				k := strings.Index(rest, "=")
				if k < 0 {
					return fmt.Errorf("%s:%d: bad let", fname, s.line)
				}
				e, err2 := ParseExpr(strings.TrimSpace(rest[k+1:]))
				if err2 != nil {
					return fmt.Errorf("%s:%d: %v", fname, s.line, err2)
				}
				c = Clause{Name: strings.TrimSpace(rest[:k]), E: e, Src: rest, Line: s.line, File: fname}
				err = nil
			}
			if err != nil {
				return err
			}
			if curLemma != nil {
				switch m {
				case "requires":
					curLemma.Requires = append(curLemma.Requires, c)
				case "ensures":
					curLemma.Ensures = append(curLemma.Ensures, c)
				case "use":
					curLemma.Uses = append(curLemma.Uses, c)
				default:
					return fmt.Errorf("%s:%d: %s not allowed in lemma", fname, s.line, m)
				}
				continue
			}
			if cur == nil {
				return fmt.Errorf("%s:%d: %s outside func", fname, s.line, m)
			}
			switch m {
			case "requires":
				cur.Requires = append(cur.Requires, c)
			case "ensures":
				cur.Ensures = append(cur.Ensures, c)
			case "panics":
				cur.Panics = append(cur.Panics, c)
				cur.MayPanic = true
			case "exits":
				cur.Exits = append(cur.Exits, c)
				cur.MayExit = true
			case "decreases":
				cur.Decr = append(cur.Decr, c)
			case "let":
				cur.Lets = append(cur.Lets, c)
			}
		case "trigger":
			if curLemma == nil {
				return fmt.Errorf("%s:%d: trigger outside lemma", fname, s.line)
			}
			e, err := ParseExpr(rest)
			if err != nil {
				return fmt.Errorf("%s:%d: %v", fname, s.line, err)
			}
			curLemma.Triggers = append(curLemma.Triggers, Clause{Name: "trigger", E: e, Src: rest, Line: s.line, File: fname})
		case "induct":
			if curLemma == nil {
				return fmt.Errorf("%s:%d: induct outside lemma", fname, s.line)
			}
			curLemma.Induct = rest
		case "loop":
			if cur == nil {
				return fmt.Errorf("%s:%d: loop outside func", fname, s.line)
			}
			parts := strings.Fields(rest)
			if len(parts) < 3 {
				return fmt.Errorf("%s:%d: bad loop clause", fname, s.line)
			}
			n, err := strconv.Atoi(parts[0])
			if err != nil {
				return fmt.Errorf("%s:%d: bad loop ordinal", fname, s.line)
			}
			kind := parts[1]
			body := strings.TrimSpace(rest[strings.Index(rest, kind)+len(kind):])
			c, err := mkClause(body, s.line, fmt.Sprintf("loop%d/%s@%d", n, kind, s.line))
			if err != nil {
				return err
			}
			ls := cur.Loops[n]
			if ls == nil {
				ls = &LoopSpec{}
				cur.Loops[n] = ls
			}
			switch kind {
			case "invariant":
				ls.Invariants = append(ls.Invariants, c)
			case "decreases":
				ls.Decreases = append(ls.Decreases, c)
			case "step":
				ls.Steps = append(ls.Steps, c)
			case "exit":
				ls.Exits = append(ls.Exits, c)
			default:
				return fmt.Errorf("%s:%d: unknown loop clause %s", fname, s.line, kind)
			}
		case "inline":
			if cur != nil {
				cur.Inline = true
			}
		case "trusted":
			if cur != nil {
				cur.Trusted = true
			}
		case "nopanic":
			if cur != nil {
				cur.NoPanic = true
			}
		case "logged":
			if cur != nil {
				cur.Logged = true
			}
		case "uselemma":
			if cur != nil {
				cur.UseLemmas = append(cur.UseLemmas, strings.Fields(strings.ReplaceAll(rest, ",", " "))...)
			}
		case "assumepre":
			if cur != nil {
				cur.AssumePre = append(cur.AssumePre, strings.Fields(strings.ReplaceAll(rest, ",", " "))...)
			}
		case "norefine":
			if cur != nil {
				cur.NoRefine = true
			}
		case "reveal":
			names := strings.Fields(strings.ReplaceAll(rest, ",", " "))
			if cur != nil {
				cur.Reveal = append(cur.Reveal, names...)
			} else if curLemma != nil {
				curLemma.Reveal = append(curLemma.Reveal, names...)
			}
		case "maypanic":
			if cur != nil {
				cur.MayPanic = true
			}
		case "modifies":
			if cur != nil {
				cur.Modifies = append(cur.Modifies, strings.Fields(strings.ReplaceAll(rest, ",", " "))...)
			}
		default:
			return fmt.Errorf("%s:%d: cannot parse %q", fname, s.line, s.text)
		}
	}
	return nil
}

func parseBinders(s string) ([]Binder, error) {
	var bs []Binder
	s = strings.TrimSpace(s)
	if s == "" {
		return nil, nil
	}
	depth := 0
	start := 0
	var parts []string
	for i := 0; i < len(s); i++ {
		switch s[i] {
		case '(', '[':
			depth++
		case ')', ']':
			depth--
		case ',':
			if depth == 0 {
				parts = append(parts, s[start:i])
				start = i + 1
			}
		}
	}
	parts = append(parts, s[start:])
	for _, p := range parts {
		p = strings.TrimSpace(p)
		i := strings.IndexAny(p, " \t")
		if i < 0 {
			bs = append(bs, Binder{Name: p})
			continue
		}
		bs = append(bs, Binder{Name: p[:i], Type: strings.TrimSpace(p[i:])})
	}
	for i := len(bs) - 2; i >= 0; i-- {
		if bs[i].Type == "" {
			bs[i].Type = bs[i+1].Type
		}
	}
	for _, b := range bs {
		if b.Type == "" {
			return nil, fmt.Errorf("binder %s has no type", b.Name)
		}
	}
	return bs, nil
}

// "rec func name(a T, b U) R = expr"  |  "func name(a T) R = expr"  |  "func name(a T) R"
func parseSpecFunc(s, fname string, line int) (*SpecFunc, error) {
	sf := &SpecFunc{File: fname, Line: line, Src: s}
	s = strings.TrimSpace(s)
	for {
		if strings.HasPrefix(s, "rec ") {
			sf.Rec = true
			s = strings.TrimSpace(s[4:])
			continue
		}
		if strings.HasPrefix(s, "static ") {
			sf.Static = true
			s = strings.TrimSpace(s[7:])
			continue
		}
		if strings.HasPrefix(s, "opaque ") {
			sf.Opaque = true
			s = strings.TrimSpace(s[7:])
			continue
		}
		break
	}
	if !strings.HasPrefix(s, "func ") {
		return nil, fmt.Errorf("%s:%d: expected 'pure [rec] func'", fname, line)
	}
	s = strings.TrimSpace(s[5:])
	i := strings.Index(s, "(")
	if i < 0 {
		return nil, fmt.Errorf("%s:%d: bad pure func header", fname, line)
	}
	sf.Name = strings.TrimSpace(s[:i])
	depth := 0
	j := -1
	for k := i; k < len(s); k++ {
		if s[k] == '(' {
			depth++
		}
		if s[k] == ')' {
			depth--
			if depth == 0 {
				j = k
				break
			}
		}
	}
	if j < 0 {
		return nil, fmt.Errorf("%s:%d: bad pure func header", fname, line)
	}
	bs, err := parseBinders(s[i+1 : j])
	if err != nil {
		return nil, fmt.Errorf("%s:%d: %v", fname, line, err)
	}
	sf.Params = bs
	rest := strings.TrimSpace(s[j+1:])
	if k := strings.Index(rest, "="); k >= 0 && !strings.HasPrefix(rest[k:], "==") {
		sf.Ret = strings.TrimSpace(rest[:k])
		e, err := ParseExpr(strings.TrimSpace(rest[k+1:]))
		if err != nil {
			return nil, fmt.Errorf("%s:%d: %v", fname, line, err)
		}
		sf.Body = e
	} else {
		sf.Ret = rest
	}
	if sf.Ret == "" {
		return nil, fmt.Errorf("%s:%d: pure func %s has no result type", fname, line, sf.Name)
	}
	return sf, nil
}

func (cs *ContractSet) Keys() []string {
	var ks []string
	for k := range cs.Funcs {
		ks = append(ks, k)
	}
	sort.Strings(ks)
	return ks
}
