package main

import (
	"go/token"
	"go/types"

	"golang.org/x/tools/go/ssa"
)

func (x *Exec) step(st *State, in ssa.Instruction) {
	f := st.top()
	switch in := in.(type) {
	case *ssa.DebugRef:
		return
	case *ssa.Alloc:
		elem := in.Type().Underlying().(*types.Pointer).Elem()
		if allocIsCell(in) {
			x.cellCtr++
			name := in.Comment
			if name == "" {
				name = in.Name()
			}
			c := &Cell{id: x.cellCtr, name: name, typ: elem}
			f.cellsByA[in] = c
			st.cells[c] = x.zero(st, elem)
			f.regs[in] = &Addr{Cell: c, Elem: elem}
			return
		}
		r := x.newRef(st, in.Comment)
		st.nonnilSet(r.S)
		a := &Addr{Ref: r, Elem: elem}
		x.store(st, a, x.zero(st, elem), in.Pos())
		f.regs[in] = mkT("Int", r.S, in.Type())
	case *ssa.Store:
		a := x.addrOf(st, x.eval(st, in.Addr), in.Addr.Type(), in.Pos())
		if sl, ok := in.Val.(*ssa.Slice); ok && a.Ref != nil {
			if _, isSlice := sl.X.Type().Underlying().(*types.Slice); isSlice {
				if _, owned := x.eval(st, sl.X).(*Owned); !owned {
					// side condition of the immutable-sequence idealisation (A-seq): a re-sliced view stored in the heap keeps the
					// backing array of the original alive, so a later append may write through it
					x.unsupported(st, in.Pos(), "a re-sliced slice is stored in the heap (it shares its backing array with the original: outside the immutable-sequence idealisation)")
				}
			}
		}
		x.store(st, a, x.eval(st, in.Val), in.Pos())
	case *ssa.UnOp:
		xv := x.eval(st, in.X)
		switch in.Op {
		case token.MUL:
			a := x.addrOf(st, xv, in.X.Type(), in.Pos())
			v := x.load(st, a, in.Pos())
			if t, ok := v.(*Term); ok && t.T == nil {
				v = mkT(t.Sort, t.S, in.Type())
			}
			f.regs[in] = v
		case token.NOT:
			f.regs[in] = mkT("Bool", Not(x.term(st, xv, in.Pos())).S, in.Type())
		case token.SUB:
			t := x.term(st, xv, in.Pos())
			if t.Sort != "Int" {
				x.unsupported(st, in.Pos(), "negation of %s", t.Sort)
			}
			f.regs[in] = mkT("Int", App("Int", "-", t).S, in.Type())
		default:
			x.unsupported(st, in.Pos(), "unary %s", in.Op)
		}
	case *ssa.BinOp:
		f.regs[in] = x.binop(st, in)
	case *ssa.FieldAddr:
		xv := x.eval(st, in.X)
		a := x.addrOf(st, xv, in.X.Type(), in.Pos())
		na := &Addr{Own: a.Own, Cell: a.Cell, Ref: a.Ref, Elem: a.Elem, GlobalArr: a.GlobalArr}
		na.Path = append(append([]PathElem(nil), a.Path...), PathElem{Field: in.Field})
		if a.Ref != nil {
			x.checkNonNil(st, a.Ref, in.Pos())
		}
		f.regs[in] = na
	case *ssa.Field:
		t := x.term(st, x.eval(st, in.X), in.Pos())
		f.regs[in] = x.project(st, t, in.X.Type(), []PathElem{{Field: in.Field}}, in.Pos())
	case *ssa.IndexAddr:
		xv := x.eval(st, in.X)
		idx := x.term(st, x.eval(st, in.Index), in.Pos())
		switch xv := xv.(type) {
		case *Owned:
			f.regs[in] = &Addr{Own: xv, Elem: xv.T, Path: []PathElem{{IsIndex: true, Index: idx}}}
		case *Addr:
			// pointer to array held in a cell or heap object
			na := &Addr{Own: xv.Own, Cell: xv.Cell, Ref: xv.Ref, Elem: xv.Elem, GlobalArr: xv.GlobalArr}
			na.Path = append(append([]PathElem(nil), xv.Path...), PathElem{IsIndex: true, Index: idx})
			f.regs[in] = na
		case *Term:
			if _, isPtr := in.X.Type().Underlying().(*types.Pointer); isPtr {
				a := x.addrOf(st, xv, in.X.Type(), in.Pos())
				a.Path = append(a.Path, PathElem{IsIndex: true, Index: idx})
				f.regs[in] = a
				return
			}
			// element of a slice value: readable; writes are rejected (immutable-sequence idealisation)
			x.cellCtr++
			c := &Cell{id: x.cellCtr, name: "elem", typ: in.X.Type()}
			st.cells[c] = xv
			f.regs[in] = &Addr{Cell: c, Elem: in.X.Type(), Path: []PathElem{{IsIndex: true, Index: idx}}, ReadOnly: true}
		default:
			x.unsupported(st, in.Pos(), "index address of %T", xv)
		}
	case *ssa.Index:
		t := x.term(st, x.eval(st, in.X), in.Pos())
		idx := x.term(st, x.eval(st, in.Index), in.Pos())
		if t.Sort == "Str" {
			x.oblige(st, "safety", "index", And(Le(IntLit(0), idx), Lt(idx, App("Int", "slen", t))), in.Pos())
			f.regs[in] = mkT("Int", App("Int", "sat", t, idx).S, in.Type())
			return
		}
		f.regs[in] = x.project(st, t, in.X.Type(), []PathElem{{IsIndex: true, Index: idx}}, in.Pos())
	case *ssa.Lookup:
		f.regs[in] = x.lookup(st, in)
	case *ssa.MapUpdate:
		m := x.term(st, x.eval(st, in.Map), in.Pos())
		k := x.term(st, x.eval(st, in.Key), in.Pos())
		v := x.term(st, x.eval(st, in.Value), in.Pos())
		x.oblige(st, "safety", "nil-map-write", Not(Eq(m, IntLit(0))), in.Pos())
		mt := in.Map.Type().Underlying().(*types.Map)
		// a map being ranged over may only have existing keys updated (the iteration model snapshots the key set)
		for _, fr := range st.frames {
			for _, rv := range fr.regs {
				if it, ok := rv.(*Iter); ok && it.isMap && types.Identical(it.T, in.Map.Type()) {
					if is := st.iters[it.id]; is != nil {
						x.oblige(st, "safety", "map-insert-during-range", Or(Not(Eq(m, it.coll)), sel(is.dom0, k, "Bool")), in.Pos())
					}
				}
			}
		}
		dn, vn := x.reg.MapArrays(x.reg.SortOf(mt.Key()), x.reg.SortOf(mt.Elem()))
		d := x.heapGet(st, dn)
		vv := x.heapGet(st, vn)
		ds := x.reg.heap[dn][1]
		vs := x.reg.heap[vn][1]
		x.heapStoreAt(st, dn, m, sto(sel(d, m, ds), k, tTrue))
		x.heapStoreAt(st, vn, m, sto(sel(vv, m, vs), k, v))
	case *ssa.MakeMap:
		r := x.newRef(st, "map")
		st.nonnilSet(r.S)
		mt := in.Type().Underlying().(*types.Map)
		ks, es := x.reg.SortOf(mt.Key()), x.reg.SortOf(mt.Elem())
		dn, vn := x.reg.MapArrays(ks, es)
		x.heapStoreAt(st, dn, r, mk(x.reg.heap[dn][1], "((as const (Array "+ks+" Bool)) false)"))
		z := x.zero(st, mt.Elem())
		x.heapStoreAt(st, vn, r, mk(x.reg.heap[vn][1], "((as const (Array "+ks+" "+es+")) "+z.S+")"))
		f.regs[in] = mkT("Int", r.S, in.Type())
	case *ssa.MakeSlice:
		n := x.term(st, x.eval(st, in.Len), in.Pos())
		x.oblige(st, "safety", "makeslice-len", Le(IntLit(0), n), in.Pos())
		sort := x.reg.SortOf(in.Type())
		e := seqElem(sort)
		c := st.Fresh("made", sort)
		st.Assume(Eq(App("Int", "len_"+e, c), n))
		z := x.zero(st, in.Type().Underlying().(*types.Slice).Elem())
		st.Assume(mk("Bool", "(forall ((i Int)) (! (=> (and (<= 0 i) (< i "+n.S+")) (= (at_"+e+" "+c.S+" i) "+z.S+")) :pattern ((at_"+e+" "+c.S+" i))))"))
		x.ownedCtr++
		st.owned[x.ownedCtr] = &OwnedState{content: c, depth: x.loopDepth(st)}
		f.regs[in] = &Owned{id: x.ownedCtr, off: IntLit(0), n: n, T: in.Type()}
	case *ssa.MakeClosure:
		var bs []Val
		for _, b := range in.Bindings {
			bs = append(bs, x.eval(st, b))
		}
		f.regs[in] = &Closure{Fn: in.Fn.(*ssa.Function), Bind: bs}
	case *ssa.MakeInterface:
		v := x.term(st, x.eval(st, in.X), in.Pos())
		tag := x.reg.Tag(in.X.Type())
		f.regs[in] = mkT("Iface", App("Iface", "iface", IntLit(int64(tag)), x.reg.Box(v)).S, in.Type())
	case *ssa.ChangeInterface:
		t := x.term(st, x.eval(st, in.X), in.Pos())
		f.regs[in] = mkT("Iface", t.S, in.Type())
	case *ssa.ChangeType:
		v := x.eval(st, in.X)
		if t, ok := v.(*Term); ok {
			f.regs[in] = mkT(t.Sort, t.S, in.Type())
		} else {
			f.regs[in] = v
		}
	case *ssa.Convert:
		f.regs[in] = x.convert(st, in)
	case *ssa.TypeAssert:
		f.regs[in] = x.typeAssert(st, in)
	case *ssa.Extract:
		t, ok := x.eval(st, in.Tuple).(Tuple)
		if !ok {
			x.unsupported(st, in.Pos(), "extract from non-tuple")
		}
		f.regs[in] = t[in.Index]
	case *ssa.Slice:
		f.regs[in] = x.slice(st, in)
	case *ssa.Range:
		xv := x.term(st, x.eval(st, in.X), in.Pos())
		x.iterCtr++
		it := &Iter{id: x.iterCtr, coll: xv, T: in.X.Type()}
		switch u := in.X.Type().Underlying().(type) {
		case *types.Map:
			it.isMap = true
			ks := x.reg.SortOf(u.Key())
			dn, _ := x.reg.MapArrays(ks, x.reg.SortOf(u.Elem()))
			ds := x.reg.heap[dn][1]
			dom := st.Fresh("iterdom", ds)
			st.Assume(Eq(dom, Ite(Eq(xv, IntLit(0)), mk(ds, "((as const "+ds+") false)"), sel(x.heapGet(st, dn), xv, ds))))
			st.iters[it.id] = &IterState{done: mk(ds, "((as const "+ds+") false)"), dom0: dom}
		case *types.Basic:
			it.isStr = true
			st.iters[it.id] = &IterState{pos: IntLit(0)}
		default:
			x.unsupported(st, in.Pos(), "range over %s", in.X.Type())
		}
		f.regs[in] = it
	case *ssa.Next:
		f.regs[in] = x.next(st, in)
	default:
		x.unsupported(st, in.Pos(), "instruction %T (%s)", in, in)
	}
}

func (st *State) nonnilSet(s string) {
	if st.nonnil == nil {
		st.nonnil = map[string]bool{}
	}
	st.nonnil[s] = true
}

func (x *Exec) loopDepth(st *State) int {
	n := 0
	for _, f := range st.frames {
		n += len(f.active)
	}
	return n
}

func (x *Exec) next(st *State, in *ssa.Next) Val {
	it, ok := x.eval(st, in.Iter).(*Iter)
	if !ok {
		x.unsupported(st, in.Pos(), "next on unknown iterator")
	}
	is := st.iters[it.id]
	if it.isStr {
		n := App("Int", "slen", it.coll)
		okT := Lt(is.pos, n)
		key := is.pos
		b := App("Int", "sat", it.coll, is.pos)
		w := st.Fresh("runew", "Int")
		st.Assume(Implies(okT, And(Le(IntLit(1), w), Le(w, IntLit(4)), Le(Add(is.pos, w), n), Implies(Lt(b, IntLit(128)), Eq(w, IntLit(1))))))
		r := st.Fresh("rune", "Int")
		st.Assume(Implies(And(okT, Lt(b, IntLit(128))), Eq(r, b)))
		is.pos = Ite(okT, Add(is.pos, w), is.pos)
		return Tuple{mkT("Bool", okT.S, types.Typ[types.Bool]), mkT("Int", key.S, types.Typ[types.Int]), mkT("Int", r.S, types.Typ[types.Rune])}
	}
	mt := it.T.Underlying().(*types.Map)
	ks, es := x.reg.SortOf(mt.Key()), x.reg.SortOf(mt.Elem())
	_, vn := x.reg.MapArrays(ks, es)
	okT := st.Fresh("more", "Bool")
	k := st.Fresh("key", ks)
	k.T = mt.Key()
	x.assumeWF(st, k)
	st.Assume(Implies(okT, And(sel(is.dom0, k, "Bool"), Not(sel(is.done, k, "Bool")))))
	st.Assume(Implies(Not(okT), mk("Bool", "(forall ((k "+ks+")) (! (=> (select "+is.dom0.S+" k) (select "+is.done.S+" k)) :pattern ((select "+is.dom0.S+" k))))")))
	vs := x.reg.heap[vn][1]
	v := mkT(es, sel(sel(x.heapGet(st, vn), it.coll, vs), k, es).S, mt.Elem())
	is.lastKey = k
	is.done = Ite(okT, sto(is.done, k, tTrue), is.done)
	return Tuple{mkT("Bool", okT.S, types.Typ[types.Bool]), k, v}
}

func (x *Exec) lookup(st *State, in *ssa.Lookup) Val {
	xv := x.term(st, x.eval(st, in.X), in.Pos())
	idx := x.term(st, x.eval(st, in.Index), in.Pos())
	if xv.Sort == "Str" {
		x.oblige(st, "safety", "index", And(Le(IntLit(0), idx), Lt(idx, App("Int", "slen", xv))), in.Pos())
		return mkT("Int", App("Int", "sat", xv, idx).S, in.Type())
	}
	mt, ok := in.X.Type().Underlying().(*types.Map)
	if !ok {
		x.unsupported(st, in.Pos(), "lookup on %s", in.X.Type())
	}
	ks, es := x.reg.SortOf(mt.Key()), x.reg.SortOf(mt.Elem())
	dn, vn := x.reg.MapArrays(ks, es)
	ds, vs := x.reg.heap[dn][1], x.reg.heap[vn][1]
	present := And(Not(Eq(xv, IntLit(0))), sel(sel(x.heapGet(st, dn), xv, ds), idx, "Bool"))
	val := Ite(present, sel(sel(x.heapGet(st, vn), xv, vs), idx, es), x.zero(st, mt.Elem()))
	vt := mkT(es, val.S, mt.Elem())
	x.assumeWF(st, vt)
	if in.CommaOk {
		return Tuple{vt, mkT("Bool", present.S, types.Typ[types.Bool])}
	}
	return vt
}

func (x *Exec) slice(st *State, in *ssa.Slice) Val {
	xv := x.eval(st, in.X)
	if in.Max != nil {
		if _, ok := xv.(*Owned); ok {
			x.unsupported(st, in.Pos(), "3-index slice of a freshly made slice")
		}
	}
	var lo, hi *Term
	if in.Low != nil {
		lo = x.term(st, x.eval(st, in.Low), in.Pos())
	} else {
		lo = IntLit(0)
	}
	if o, ok := xv.(*Owned); ok {
		if in.High != nil {
			hi = x.term(st, x.eval(st, in.High), in.Pos())
		} else {
			hi = o.n
		}
		x.oblige(st, "safety", "slice-bounds", And(Le(IntLit(0), lo), Le(lo, hi), Le(hi, o.n)), in.Pos())
		return &Owned{id: o.id, off: simplAdd(o.off, lo), n: Sub(hi, lo), T: in.Type()}
	}
	var base *Term
	if a, ok := xv.(*Addr); ok {
		// pointer to array
		v := x.load(st, a, in.Pos())
		base = x.term(st, v, in.Pos())
	} else {
		base = x.term(st, xv, in.Pos())
		if _, isPtr := in.X.Type().Underlying().(*types.Pointer); isPtr {
			a := x.addrOf(st, base, in.X.Type(), in.Pos())
			base = x.term(st, x.load(st, a, in.Pos()), in.Pos())
		}
	}
	var n *Term
	if base.Sort == "Str" {
		n = App("Int", "slen", base)
	} else {
		n = App("Int", "len_"+seqElem(base.Sort), base)
	}
	if in.High != nil {
		hi = x.term(st, x.eval(st, in.High), in.Pos())
	} else {
		hi = n
	}
	x.oblige(st, "safety", "slice-bounds", And(Le(IntLit(0), lo), Le(lo, hi), Le(hi, n)), in.Pos())
	if in.Low == nil && in.High == nil {
		// whole small array (varargs): canonical form one(a[0]) ++ one(a[1]) ...
		if pt, ok := in.X.Type().Underlying().(*types.Pointer); ok {
			if at, ok := pt.Elem().Underlying().(*types.Array); ok && at.Len() >= 1 && at.Len() <= 4 && isSeq(base.Sort) {
				e := seqElem(base.Sort)
				var r *Term
				for i := int64(0); i < at.Len(); i++ {
					o := App(base.Sort, "one_"+e, App(e, "at_"+e, base, IntLit(i)))
					if r == nil {
						r = o
					} else {
						r = App(base.Sort, "cat_"+e, r, o)
					}
				}
				return mkT(base.Sort, r.S, in.Type())
			}
		}
		return mkT(base.Sort, base.S, in.Type())
	}
	if base.Sort == "Str" {
		return mkT("Str", App("Str", "ssub", base, lo, hi).S, in.Type())
	}
	res := mkT(base.Sort, App(base.Sort, "sub_"+seqElem(base.Sort), base, lo, hi).S, in.Type())
	capped := false
	if in.Max != nil {
		// x[lo:hi:max]: max is checked against len (<= cap): stricter than Go, never laxer. With max == hi the result has no
		// spare capacity, so an append to it always copies: it is a value of its own, not a view
		mx := x.term(st, x.eval(st, in.Max), in.Pos())
		x.oblige(st, "safety", "slice-bounds", And(Le(hi, mx), Le(mx, n)), in.Pos())
		capped = mx.S == hi.S
	}
	if _, isSlice := in.X.Type().Underlying().(*types.Slice); isSlice && in.High != nil && !capped {
		// a view that stops before the end of the original: appending to it would overwrite the original's elements
		if st.views == nil {
			st.views = map[string]bool{}
		}
		st.views[res.S] = true
	}
	return res
}

func simplAdd(a, b *Term) *Term {
	if a.S == "0" {
		return b
	}
	if b.S == "0" {
		return a
	}
	return Add(a, b)
}

func (x *Exec) convert(st *State, in *ssa.Convert) Val {
	v := x.eval(st, in.X)
	from, to := in.X.Type().Underlying(), in.Type().Underlying()
	fb, fok := from.(*types.Basic)
	tb, tok := to.(*types.Basic)
	t := x.term(st, v, in.Pos())
	if fok && tok {
		switch {
		case fb.Info()&types.IsInteger != 0 && tb.Info()&types.IsInteger != 0:
			if tb.Kind() == types.Uint8 && fb.Kind() != types.Uint8 {
				return mkT("Int", App("Int", "mod", t, IntLit(256)).S, in.Type())
			}
			x.trusted["A-int: integer conversions are value preserving (64-bit int, no overflow)"] = true
			return mkT("Int", t.S, in.Type())
		case fb.Info()&types.IsString != 0 && tb.Info()&types.IsString != 0:
			return mkT("Str", t.S, in.Type())
		case fb.Info()&types.IsFloat != 0 && tb.Info()&types.IsFloat != 0:
			return mkT("F64", t.S, in.Type())
		case fb.Info()&types.IsBoolean != 0 && tb.Info()&types.IsBoolean != 0:
			return mkT("Bool", t.S, in.Type())
		}
	}
	if types.Identical(from, to) {
		return mkT(t.Sort, t.S, in.Type())
	}
	if x.reg.SortOf(from) == x.reg.SortOf(to) && t.Sort != "Int" {
		return mkT(t.Sort, t.S, in.Type())
	}
	if _, ok := from.(*types.Pointer); ok {
		if _, ok := to.(*types.Pointer); ok {
			return mkT("Int", t.S, in.Type())
		}
	}
	x.unsupported(st, in.Pos(), "conversion %s -> %s", in.X.Type(), in.Type())
	return nil
}

func (x *Exec) typeAssert(st *State, in *ssa.TypeAssert) Val {
	v := x.term(st, x.eval(st, in.X), in.Pos())
	tag := App("Int", "itag", v)
	if it, ok := in.AssertedType.Underlying().(*types.Interface); ok {
		var okT *Term
		if it.NumMethods() == 0 {
			okT = Not(Eq(tag, IntLit(0)))
		} else {
			okT = App("Bool", x.reg.ImplPred(it, shortTypeName(in.AssertedType)), tag)
		}
		res := mkT("Iface", v.S, in.AssertedType)
		if in.CommaOk {
			return Tuple{mkT("Iface", Ite(okT, v, mk("Iface", "inil")).S, in.AssertedType), mkT("Bool", okT.S, types.Typ[types.Bool])}
		}
		x.oblige(st, "safety", "type-assert", okT, in.Pos())
		return res
	}
	tg := x.reg.Tag(in.AssertedType)
	okT := Eq(tag, IntLit(int64(tg)))
	sort := x.reg.SortOf(in.AssertedType)
	val := x.reg.Unbox(App("Int", "ival", v), sort)
	val = mkT(sort, val.S, in.AssertedType)
	if in.CommaOk {
		z := x.zero(st, in.AssertedType)
		return Tuple{mkT(sort, Ite(okT, val, z).S, in.AssertedType), mkT("Bool", okT.S, types.Typ[types.Bool])}
	}
	x.oblige(st, "safety", "type-assert", okT, in.Pos())
	return val
}

func (x *Exec) binop(st *State, in *ssa.BinOp) Val {
	a := x.term(st, x.eval(st, in.X), in.Pos())
	b := x.term(st, x.eval(st, in.Y), in.Pos())
	rt := in.Type()
	switch in.Op {
	case token.EQL, token.NEQ:
		var e *Term
		if a.Sort != b.Sort {
			x.unsupported(st, in.Pos(), "comparison of %s and %s", a.Sort, b.Sort)
		}
		e = Eq(a, b)
		if in.Op == token.NEQ {
			e = Not(e)
		}
		return mkT("Bool", e.S, rt)
	}
	switch a.Sort {
	case "Int":
		var r *Term
		switch in.Op {
		case token.ADD:
			r = Add(a, b)
		case token.SUB:
			r = Sub(a, b)
		case token.MUL:
			r = App("Int", "*", a, b)
		case token.QUO:
			x.oblige(st, "safety", "div-by-zero", Not(Eq(b, IntLit(0))), in.Pos())
			r = App("Int", "gdiv", a, b)
			x.reg.DeclFunc("gdiv", []string{"Int", "Int"}, "Int")
		case token.REM:
			x.oblige(st, "safety", "div-by-zero", Not(Eq(b, IntLit(0))), in.Pos())
			r = App("Int", "grem", a, b)
			x.reg.DeclFunc("grem", []string{"Int", "Int"}, "Int")
		case token.LSS:
			return mkT("Bool", Lt(a, b).S, rt)
		case token.LEQ:
			return mkT("Bool", Le(a, b).S, rt)
		case token.GTR:
			return mkT("Bool", Lt(b, a).S, rt)
		case token.GEQ:
			return mkT("Bool", Le(b, a).S, rt)
		default:
			x.unsupported(st, in.Pos(), "integer operator %s", in.Op)
		}
		return mkT("Int", r.S, rt)
	case "Str":
		switch in.Op {
		case token.ADD:
			return mkT("Str", App("Str", "scat", a, b).S, rt)
		}
		x.unsupported(st, in.Pos(), "string operator %s", in.Op)
	case "Bool":
		switch in.Op {
		case token.AND, token.LAND:
			return mkT("Bool", And(a, b).S, rt)
		case token.OR, token.LOR:
			return mkT("Bool", Or(a, b).S, rt)
		}
	}
	x.unsupported(st, in.Pos(), "operator %s on %s", in.Op, a.Sort)
	return nil
}
