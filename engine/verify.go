package main

import (
	"fmt"
	"go/token"
	"go/types"
	"sort"
	"strings"

	"golang.org/x/tools/go/ssa"
)

type FuncReport struct {
	Key       string
	Paths     int
	Obls      int
	Err       string // unsupported construct etc.: the function is outside the subset (fail closed)
	Trusted   bool
	Refines   []string
	Warnings  []string
}

func (x *Exec) initState() *State {
	st := &State{cells: map[*Cell]Val{}, heap: map[string]*Term{}, heap0: map[string]*Term{}, ghost: map[string]*Term{},
		iters: map[int]*IterState{}, owned: map[int]*OwnedState{}, closures: map[string]*Closure{}, nonnil: map[string]bool{}, once: map[string]bool{}}
	st.alloc0 = x.reg.Global("$alloc0", "Int")
	st.allocCtr = st.alloc0
	st.Assume(Le(IntLit(0), st.alloc0))
	x.reg.SeqSort("Ev")
	st.trace0 = x.reg.Global("$trace0", "Seq_Ev")
	st.trace = st.trace0
	return st
}

// verifyFunction generates all obligations of one function against its own contract (mode "own")
// or against the contract of an interface method it implements (mode "refines").
func (x *Exec) verifyFunction(fn *ssa.Function, con *Contract, ifaceCon *Contract, recvType types.Type) (rep *FuncReport) {
	resetFresh()
	key := x.fnKey[fn]
	short := key[strings.Index(key, "::")+2:]
	pkgShort := key[:strings.Index(key, "::")]
	if i := strings.LastIndex(pkgShort, "/"); i >= 0 {
		pkgShort = pkgShort[i+1:]
	}
	x.curFn = pkgShort + "." + short
	if ifaceCon != nil {
		x.curFn += "~" + ifaceCon.Key
	}
	rep = &FuncReport{Key: x.curFn}
	nobl := len(x.obls)
	nwarn := len(x.warnings)
	x.npaths = 0
	defer func() {
		rep.Paths = x.npaths
		rep.Obls = len(x.obls) - nobl
		rep.Warnings = append([]string(nil), x.warnings[nwarn:]...)
		if r := recover(); r != nil {
			switch r := r.(type) {
			case unsupported:
				rep.Err = r.msg
			case specErr:
				rep.Err = r.msg
			default:
				panic(r)
			}
			// fail closed: one undischargeable obligation
			x.obls = x.obls[:nobl]
			x.obls = append(x.obls, &Obligation{Func: x.curFn, Kind: "subset", Name: "supported", Goal: "false", Src: rep.Err, Pos: x.posStr(fn.Pos())})
			rep.Obls = 1
		}
	}()
	st := x.initState()
	var args []Val
	var argT []*Term
	for _, p := range fn.Params {
		sort := x.reg.SortOf(p.Type())
		t := x.reg.Global("p_"+sanitize(x.curFn)+"_"+sanitize(p.Name()), sort)
		t = mkT(sort, t.S, p.Type())
		x.assumeWF(st, t)
		args = append(args, t)
		argT = append(argT, t)
	}
	// a function literal verified on its own: every captured variable is a cell holding an arbitrary well-formed value
	var bind []Val
	for _, fv := range fn.FreeVars {
		pt, ok := fv.Type().Underlying().(*types.Pointer)
		if !ok {
			x.unsupported(st, fn.Pos(), "captured variable %s is not captured by reference", fv.Name())
		}
		elem := pt.Elem()
		sort := x.reg.SortOf(elem)
		t := x.reg.Global("fv_"+sanitize(x.curFn)+"_"+sanitize(fv.Name()), sort)
		t = mkT(sort, t.S, elem)
		x.assumeWF(st, t)
		x.cellCtr++
		c := &Cell{id: x.cellCtr, name: fv.Name(), typ: elem}
		st.cells[c] = t
		bind = append(bind, &Addr{Cell: c, Elem: elem})
	}
	var thisT *Term
	bindIface := func(c *SpecCtx) {
		if ifaceCon == nil {
			return
		}
		c.vars["this"] = thisT
		// positional mapping of the interface method's parameter names
		if m := x.ifaceMethod(ifaceCon, recvType); m != nil {
			sig := m.Type().(*types.Signature)
			for i := 0; i < sig.Params().Len(); i++ {
				n := sig.Params().At(i).Name()
				if i < len(ifaceCon.ParamNames) {
					n = ifaceCon.ParamNames[i]
				}
				if n != "" && i+1 < len(argT) {
					c.vars[n] = argT[i+1]
				}
			}
		}
	}
	if ifaceCon != nil {
		tag := x.reg.Tag(fn.Params[0].Type())
		thisT = App("Iface", "iface", IntLit(int64(tag)), x.reg.Box(argT[0]))
	}
	active := con
	if ifaceCon != nil {
		active = ifaceCon
	}
	x.curReveal = nil
	x.curAssumePre = nil
	if active != nil {
		x.curReveal = active.Reveal
		x.curAssumePre = active.AssumePre
	}
	ctx := x.newSpecCtx(st, nil, fn)
	ctx.bindParams(fn, argT)
	bindIface(ctx)
	if active != nil {
		ctx.evalLets(active)
		for _, r := range active.Requires {
			ctx.clause = active.Key + "/requires " + r.Name
			st.Assume(ctx.boolExpr(r.E, false))
		}
	}
	if active != nil {
		for _, ln := range active.UseLemmas {
			st.Assume(x.lemmaFact(ln))
		}
	}
	x.curDecr = nil
	if active != nil {
		for _, d := range active.Decr {
			ctx.clause = active.Key + "/decreases"
			x.curDecr = append(x.curDecr, ctx.intExpr(d.E))
		}
	}
	// vacuity: the precondition must be satisfiable
	x.obls = append(x.obls, &Obligation{Func: x.curFn, Kind: "cover", Name: "requires", Goal: "false",
		Assume: append([]string(nil), st.assume...), Decls: append([]string(nil), st.decls...), Pos: x.posStr(fn.Pos())})

	outs := x.execFunction(st, fn, args, bind, true)
	ncover := 0
	for _, o := range outs {
		s := o.st
		pc := x.newSpecCtx(s, nil, fn)
		pc.bindParams(fn, argT)
		for i, fv := range fn.FreeVars {
			if t, ok := s.cells[bind[i].(*Addr).Cell].(*Term); ok {
				pc.vars[fv.Name()] = t
			}
		}
		bindIface(pc)
		if active != nil {
			pc.evalLetsOld(active)
		}
		if o.exited {
			if active != nil && len(active.Exits) > 0 {
				for _, e := range active.Exits {
					pc.clause = active.Key + "/exits " + e.Name
					g := pc.boolExpr(e.E, true)
					x.obligeSrc(s, "exit-post", e.Name, g, fn.Pos(), e.Src)
				}
			} else if active == nil || !active.MayExit {
				x.obligeSrc(s, "safety", "no-exit", tFalse, fn.Pos(), "the function has no `exits` clause: a call of the process-exit function must be unreachable")
			}
			continue
		}
		if !o.panicked {
			var rs []*Term
			for _, r := range o.results {
				rs = append(rs, x.term(s, r, fn.Pos()))
			}
			pc.bindResults(fn, rs)
			if ifaceCon != nil {
				for i, r := range rs {
					pc.vars[fmt.Sprintf("result%d", i)] = r
				}
			}
			if active != nil {
				for _, e := range active.Ensures {
					pc.clause = active.Key + "/ensures " + e.Name
					g := pc.boolExpr(e.E, true)
					x.obligeSrc(s, "post", e.Name, g, fn.Pos(), e.Src)
				}
			}
			if ncover < 3 {
				ncover++
				x.obls = append(x.obls, &Obligation{Func: x.curFn, Kind: "cover", Name: "return", Goal: "false",
					Assume: append([]string(nil), s.assume...), Decls: append([]string(nil), s.decls...), Path: s.path, Pos: x.posStr(fn.Pos())})
			}
			continue
		}
		// exceptional exit
		pc.vars["panicval"] = s.panicking
		pc.vars["$ownPanic"] = mkT("Bool", BoolLit(s.ownPanic).S, types.Typ[types.Bool])
		if active != nil && len(active.Panics) > 0 {
			for _, e := range active.Panics {
				pc.clause = active.Key + "/panics " + e.Name
				g := pc.boolExpr(e.E, true)
				x.obligeSrc(s, "panic-post", e.Name, g, fn.Pos(), e.Src)
			}
		} else if active == nil || !active.MayPanic {
			x.obligeSrc(s, "safety", "no-panic", tFalse, fn.Pos(), "the function has no `panics` clause: an explicit panic or a panicking callee must be unreachable")
		}
	}
	return rep
}

func (x *Exec) ifaceMethod(ic *Contract, recvType types.Type) *types.Func {
	// ic.Key = "Iface.Method"; find the interface type in ic.PkgPath
	parts := strings.SplitN(ic.Key, ".", 2)
	if len(parts) != 2 {
		return nil
	}
	for _, p := range x.allPkgs {
		if p.PkgPath != ic.PkgPath {
			continue
		}
		obj := p.Types.Scope().Lookup(parts[0])
		if obj == nil {
			return nil
		}
		it, ok := obj.Type().Underlying().(*types.Interface)
		if !ok {
			return nil
		}
		for i := 0; i < it.NumMethods(); i++ {
			if it.Method(i).Name() == parts[1] {
				return it.Method(i)
			}
		}
	}
	return nil
}

// interface contracts a method has to refine
func (x *Exec) refinementTargets(fn *ssa.Function) []*Contract {
	recv := fn.Signature.Recv()
	if recv == nil {
		return nil
	}
	var res []*Contract
	for _, k := range x.cs.Keys() {
		ic := x.cs.Funcs[k]
		parts := strings.SplitN(ic.Key, ".", 2)
		if len(parts) != 2 || strings.HasPrefix(ic.Key, "(") {
			continue
		}
		m := x.ifaceMethod(ic, recv.Type())
		if m == nil || m.Name() != fn.Name() || ic.NoRefine {
			continue
		}
		var it *types.Interface
		for _, p := range x.allPkgs {
			if p.PkgPath == ic.PkgPath {
				if obj := p.Types.Scope().Lookup(parts[0]); obj != nil {
					it, _ = obj.Type().Underlying().(*types.Interface)
				}
			}
		}
		if it != nil && types.Implements(recv.Type(), it) {
			res = append(res, ic)
		}
	}
	return res
}

// lemma obligations: forall params. requires ==> ensures, proved directly by the solver
// (with `induct n`: base n=0 is part of the goal; the hypothesis for n-1 is assumed).
func (x *Exec) verifyLemma(l *LemmaDecl) *FuncReport {
	resetFresh()
	x.curFn = "lemma." + l.Name
	x.curReveal = l.Reveal
	rep := &FuncReport{Key: x.curFn}
	nobl := len(x.obls)
	err := catchSpec(func() {
		st := x.initState()
		ctx := x.newSpecCtx(st, nil, nil)
		ctx.pkgPath = l.PkgPath
		ctx.noState = true
		ctx.clause = "lemma " + l.Name
		for _, p := range l.Params {
			sort, gt := x.sortOfTypeString(l.PkgPath, p.Type)
			c := st.Fresh("L_"+p.Name, sort)
			c.T = gt
			ctx.vars[p.Name] = c
		}
		var reqs []*Term
		for _, r := range l.Requires {
			reqs = append(reqs, ctx.boolExpr(r.E, false))
		}
		if l.Induct != "" {
			// induction hypothesis: the lemma for every smaller natural value of the induction variable (all other params universally quantified)
			n := ctx.vars[l.Induct]
			if n == nil || n.Sort != "Int" {
				ctx.fail("induct: %s is not an integer parameter", l.Induct)
			}
			var bs []string
			m := map[string]*Term{}
			for _, p := range l.Params {
				sort, gt := x.sortOfTypeString(l.PkgPath, p.Type)
				name := "ih_" + sanitize(p.Name)
				m[p.Name] = mkT(sort, name, gt)
				bs = append(bs, fmt.Sprintf("(%s %s)", name, sort))
			}
			ih := x.newSpecCtx(st, nil, nil)
			ih.pkgPath, ih.noState, ih.clause = l.PkgPath, true, "lemma "+l.Name+" (IH)"
			ih.vars = m
			var rq, en []*Term
			for _, r := range l.Requires {
				rq = append(rq, ih.boolExpr(r.E, false))
			}
			for _, e := range l.Ensures {
				en = append(en, ih.boolExpr(e.E, false))
			}
			guard := And(Le(IntLit(0), m[l.Induct]), Lt(m[l.Induct], n))
			body := Implies(And(append([]*Term{guard}, rq...)...), And(en...))
			var pats []string
			for _, e := range en {
				_ = e
			}
			_ = pats
			st.Assume(mk("Bool", "(forall ("+strings.Join(bs, " ")+") "+body.S+")"))
		}
		for _, r := range reqs {
			st.Assume(r)
		}
		for _, u := range l.Uses {
			g := ctx.boolExpr(u.E, true)
			x.obligeSrc(st, "lemma", l.Name+"/use/"+u.Name, g, token.NoPos, u.Src)
			st.Assume(ctx.boolExpr(u.E, false))
		}
		for _, e := range l.Ensures {
			g := ctx.boolExpr(e.E, true)
			x.obligeSrc(st, "lemma", l.Name+"/"+e.Name, g, token.NoPos, e.Src)
		}
		x.obls = append(x.obls, &Obligation{Func: x.curFn, Kind: "cover", Name: "requires", Goal: "false",
			Assume: append([]string(nil), st.assume...), Decls: append([]string(nil), st.decls...)})
	})
	if err != nil {
		rep.Err = err.Error()
		x.obls = x.obls[:nobl]
		x.obls = append(x.obls, &Obligation{Func: x.curFn, Kind: "subset", Name: "supported", Goal: "false", Src: rep.Err})
	}
	rep.Obls = len(x.obls) - nobl
	return rep
}

func sortedFuncKeys(m map[string]*ssa.Function) []string {
	var ks []string
	for k := range m {
		ks = append(ks, k)
	}
	sort.Strings(ks)
	return ks
}

// lemmaFact: forall params. requires ==> ensures, for a lemma that is proved separately (its own obligations)
func (x *Exec) lemmaFact(name string) *Term {
	for _, l := range x.cs.Lemmas {
		if l.Name != name {
			continue
		}
		st := x.initState()
		c := x.newSpecCtx(st, nil, nil)
		c.pkgPath, c.noState, c.clause = l.PkgPath, true, "lemma "+l.Name+" (use)"
		var bs []string
		for _, p := range l.Params {
			sort, gt := x.sortOfTypeString(l.PkgPath, p.Type)
			n := "lm_" + sanitize(p.Name)
			c.vars[p.Name] = mkT(sort, n, gt)
			bs = append(bs, fmt.Sprintf("(%s %s)", n, sort))
		}
		var rq, en []*Term
		for _, r := range l.Requires {
			rq = append(rq, c.boolExpr(r.E, false))
		}
		for _, e := range l.Ensures {
			en = append(en, c.boolExpr(e.E, false))
		}
		body := Implies(And(rq...), And(en...))
		pat := ""
		if len(l.Triggers) > 0 {
			var ps []string
			for _, t := range l.Triggers {
				ps = append(ps, c.tr(t.E, false).S)
			}
			pat = " :pattern (" + strings.Join(ps, " ") + ")"
			return mk("Bool", "(forall ("+strings.Join(bs, " ")+") (! "+body.S+pat+"))")
		}
		return mk("Bool", "(forall ("+strings.Join(bs, " ")+") "+body.S+")")
	}
	panic(specErr{"unknown lemma " + name})
}
