package main

import (
	"fmt"
	"go/token"
	"go/types"
	"sort"

	"golang.org/x/tools/go/ssa"
)

func (x *Exec) pushFrame(st *State, fn *ssa.Function, args []Val, bind []Val, isTop bool) *Frame {
	x.frameCtr++
	f := &Frame{id: x.frameCtr, fn: fn, regs: map[ssa.Value]Val{}, bind: bind, isTop: isTop, callPos: x.callPos,
		active: map[*ssa.BasicBlock]*LoopEntry{}, cellsByA: map[*ssa.Alloc]*Cell{}}
	x.callPos = token.NoPos
	for i, p := range fn.Params {
		f.regs[p] = args[i]
		if t, ok := args[i].(*Term); ok {
			f.params = append(f.params, t)
		} else {
			f.params = append(f.params, nil)
		}
	}
	st.frames = append(st.frames, f)
	return f
}

func (x *Exec) execFunction(st *State, fn *ssa.Function, args []Val, bind []Val, isTop bool) []Outcome {
	if fn.Blocks == nil {
		x.unsupported(st, fn.Pos(), "function %s has no body", fn.String())
	}
	if len(st.frames) > 12 {
		x.unsupported(st, fn.Pos(), "inlining too deep at %s", fn.String())
	}
	x.pushFrame(st, fn, args, bind, isTop)
	return x.runFrom(st, fn.Blocks[0], 0, nil)
}

func (x *Exec) runFrom(st *State, b *ssa.BasicBlock, idx int, prev *ssa.BasicBlock) []Outcome {
	for {
		if st.dead {
			return nil
		}
		f := st.top()
		if idx == 0 && prev != nil {
			x.atLoopExits(st, f, prev, b)
		}
		if idx == 0 {
			if li := x.loopsOf(f.fn)[b]; li != nil {
				if !x.atLoopHead(st, f, li) {
					return nil
				}
			}
			st.Note(fmt.Sprintf("%s#%d", f.fn.Name(), b.Index))
		}
		jumped := false
		for i := idx; i < len(b.Instrs); i++ {
			in := b.Instrs[i]
			switch in := in.(type) {
			case *ssa.If:
				c := x.term(st, x.eval(st, in.Cond), in.Pos())
				if c.S == "true" {
					prev, b, idx, jumped = b, b.Succs[0], 0, true
				} else if c.S == "false" {
					prev, b, idx, jumped = b, b.Succs[1], 0, true
				} else {
					st2 := st.Clone()
					st.Assume(c)
					st2.Assume(Not(c))
					st.nbranch++
					st2.nbranch++
					outs := x.runFrom(st, b.Succs[0], 0, b)
					outs = append(outs, x.runFrom(st2, b.Succs[1], 0, b)...)
					return outs
				}
			case *ssa.Jump:
				prev, b, idx, jumped = b, b.Succs[0], 0, true
			case *ssa.Return:
				var rs []Val
				for _, r := range in.Results {
					rs = append(rs, x.eval(st, r))
				}
				return x.finishReturn(st, rs)
			case *ssa.Panic:
				st.panicking = x.term(st, x.eval(st, in.X), in.Pos())
				st.ownPanic = len(st.frames) == 1
				st.Note("panic@" + x.posStr(in.Pos()))
				return x.unwind(st)
			case *ssa.RunDefers:
				sts := x.runDefers(st)
				var outs []Outcome
				for _, s := range sts {
					if s.exited {
						outs = append(outs, x.exitOutcome(s.st))
					} else if s.panicked {
						outs = append(outs, x.unwind(s.st)...)
					} else {
						outs = append(outs, x.runFrom(s.st, b, i+1, prev)...)
					}
				}
				return outs
			case *ssa.Defer:
				fv := x.eval(st, in.Call.Value)
				var as []Val
				for _, a := range in.Call.Args {
					as = append(as, x.eval(st, a))
				}
				if in.Call.IsInvoke() {
					x.unsupported(st, in.Pos(), "defer of interface method")
				}
				f.defers = append(f.defers, Deferred{Fn: fv, Args: as})
			case *ssa.Call:
				outs := x.doCall(st, in.Common(), in.Pos())
				if len(outs) == 1 && !outs[0].panicked && !outs[0].exited {
					st = outs[0].st
					x.setReg(st, in, resultVal(outs[0].results))
					continue
				}
				var res []Outcome
				for _, o := range outs {
					if o.exited {
						res = append(res, x.exitOutcome(o.st))
					} else if o.panicked {
						res = append(res, x.unwind(o.st)...)
					} else {
						x.setReg(o.st, in, resultVal(o.results))
						res = append(res, x.runFrom(o.st, b, i+1, prev)...)
					}
				}
				return res
			case *ssa.Phi:
				found := false
				for k, p := range b.Preds {
					if p == prev {
						x.setReg(st, in, x.eval(st, in.Edges[k]))
						found = true
						break
					}
				}
				if !found {
					x.unsupported(st, in.Pos(), "phi without matching predecessor")
				}
			default:
				x.step(st, in)
			}
			if jumped {
				break
			}
		}
		if !jumped {
			x.unsupported(st, token.NoPos, "fell off block %d of %s", b.Index, f.fn.Name())
		}
	}
}

func resultVal(rs []Val) Val {
	switch len(rs) {
	case 0:
		return Tuple(nil)
	case 1:
		return rs[0]
	}
	return Tuple(rs)
}

func (x *Exec) setReg(st *State, v ssa.Value, val Val) {
	st.top().regs[v] = val
}

// finishReturn pops the frame
func (x *Exec) finishReturn(st *State, rs []Val) []Outcome {
	st.frames = st.frames[:len(st.frames)-1]
	x.npaths++
	if x.npaths > x.maxPaths {
		x.unsupported(st, token.NoPos, "more than %d paths", x.maxPaths)
	}
	return []Outcome{{st: st, results: rs}}
}

type deferOut struct {
	st       *State
	panicked bool
	exited   bool
}

// exitOutcome: the process exits; no deferred call runs, the current frame is abandoned
func (x *Exec) exitOutcome(st *State) Outcome {
	st.frames = st.frames[:len(st.frames)-1]
	x.npaths++
	return Outcome{st: st, exited: true}
}

// runDefers runs the deferred calls of the top frame (normal flow)
func (x *Exec) runDefers(st *State) []deferOut {
	f := st.top()
	if len(f.defers) == 0 {
		return []deferOut{{st: st}}
	}
	d := f.defers[len(f.defers)-1]
	f.defers = f.defers[:len(f.defers)-1]
	var res []deferOut
	for _, o := range x.callVal(st, d.Fn, d.Args, nil, token.NoPos) {
		if o.exited {
			res = append(res, deferOut{o.st, false, true})
		} else if o.panicked {
			res = append(res, deferOut{o.st, true, false})
		} else {
			res = append(res, x.runDefers(o.st)...)
		}
	}
	return res
}

// unwind: st.panicking is set; run the top frame's defers, then either resume at the Recover block or propagate.
func (x *Exec) unwind(st *State) []Outcome {
	f := st.top()
	if len(f.defers) > 0 {
		d := f.defers[len(f.defers)-1]
		f.defers = f.defers[:len(f.defers)-1]
		st.inDefer++
		var res []Outcome
		for _, o := range x.callVal(st, d.Fn, d.Args, nil, token.NoPos) {
			o.st.inDefer--
			if o.exited {
				res = append(res, x.exitOutcome(o.st))
				continue
			}
			if o.st.panicking == nil && !o.panicked {
				// recovered: remaining defers run normally, then the function returns through its Recover block
				for _, s := range x.runDefers(o.st) {
					if s.exited {
						res = append(res, x.exitOutcome(s.st))
						continue
					}
					if s.panicked {
						res = append(res, x.unwind(s.st)...)
						continue
					}
					res = append(res, x.resumeAfterRecover(s.st)...)
				}
			} else {
				res = append(res, x.unwind(o.st)...)
			}
		}
		return res
	}
	// propagate to caller
	st.frames = st.frames[:len(st.frames)-1]
	x.npaths++
	return []Outcome{{st: st, panicked: true}}
}

func (x *Exec) resumeAfterRecover(st *State) []Outcome {
	f := st.top()
	if f.fn.Recover != nil {
		return x.runFrom(st, f.fn.Recover, 0, nil)
	}
	var rs []Val
	res := f.fn.Signature.Results()
	for i := 0; i < res.Len(); i++ {
		rs = append(rs, x.zero(st, res.At(i).Type()))
	}
	return x.finishReturn(st, rs)
}

// ---------------------------------------------------------------------------
// loops

func (x *Exec) loopSpec(fn *ssa.Function, ord int) *LoopSpec {
	c := x.contractOf(fn)
	if c == nil {
		return nil
	}
	return c.Loops[ord]
}

// atLoopExits: control goes from prev to b; for every loop that contains prev and not b, the loop's `exit` clauses are
// obligations (an early `break` out of a loop that must run to completion is caught here: exhausted() is false)
func (x *Exec) atLoopExits(st *State, f *Frame, prev, b *ssa.BasicBlock) {
	for _, li := range x.loopsOf(f.fn) {
		if !li.body[prev] || li.body[b] {
			continue
		}
		if len(b.Instrs) > 0 {
			if _, isPanic := b.Instrs[len(b.Instrs)-1].(*ssa.Panic); isPanic && len(b.Succs) == 0 {
				continue // leaving by raising: governed by the panics clauses, not an exit of the loop
			}
		}
		if _, active := f.active[li.head]; !active {
			continue
		}
		spec, ord, host := x.loopContext(st, f, li)
		if spec == nil || len(spec.Exits) == 0 {
			continue
		}
		ctx := x.newSpecCtx(st, f, f.fn)
		ctx.loop = li
		if host != f {
			ctx.host = host
		}
		x.bindLoopLets(ctx, st, host)
		ctx.vars["$exhausted"] = mkT("Bool", BoolLit(prev == li.head).S, types.Typ[types.Bool])
		for _, e := range spec.Exits {
			g := ctx.boolExpr(e.E, true)
			x.obligeSrc(st, "loop-exit", fmt.Sprintf("%s/loop%d/%s", funcKey(host.fn), ord, e.Name), g, x.blockPos(li.head), e.Src)
		}
	}
}

func (x *Exec) atLoopHead(st *State, f *Frame, li *LoopInfo) bool {
	spec, ord, host := x.loopContext(st, f, li)
	pos := x.blockPos(li.head)
	fname := funcKey(host.fn)
	ctx := x.newSpecCtx(st, f, f.fn)
	ctx.loop = li
	if host != f {
		ctx.host = host
	}
	x.bindLoopLets(ctx, st, host)
	if entry, ok := f.active[li.head]; ok {
		// arrived through a back edge
		st.Note(fmt.Sprintf("backedge loop%d", ord))
		if spec != nil {
			for _, inv := range spec.Invariants {
				g := ctx.boolExpr(inv.E, true)
				x.obligeSrc(st, "inv-pres", fmt.Sprintf("%s/loop%d/%s", fname, ord, inv.Name), g, pos, inv.Src)
			}
			for _, sc := range spec.Steps {
				g := ctx.boolExpr(sc.E, true)
				x.obligeSrc(st, "loop-step", fmt.Sprintf("%s/loop%d/%s", fname, ord, sc.Name), g, pos, sc.Src)
			}
			if len(spec.Decreases) > 0 {
				var now []*Term
				for _, d := range spec.Decreases {
					now = append(now, ctx.intExpr(d.E))
				}
				x.obligeSrc(st, "decreases", fmt.Sprintf("%s/loop%d", fname, ord), lexLess(now, entry.dec), pos, spec.Decreases[0].Src)
			}
		}
		x.npaths++
		return false
	}
	st.Note(fmt.Sprintf("enter loop%d", ord))
	if spec == nil {
		x.warn("%s: loop %d has no invariant (treated as true)", fname, ord)
	} else {
		for _, inv := range spec.Invariants {
			g := ctx.boolExpr(inv.E, true)
			x.obligeSrc(st, "inv-init", fmt.Sprintf("%s/loop%d/%s", fname, ord, inv.Name), g, pos, inv.Src)
		}
	}
	x.havocLoop(st, f, li)
	// built-in invariant of range-over-slice loops: the hidden index starts at -1 and only grows
	for a, cell := range f.cellsByA {
		if a.Comment == "rangeindex" {
			for _, in := range li.head.Instrs {
				if s, ok := in.(*ssa.Store); ok && s.Addr == a {
					if t, ok := st.cells[cell].(*Term); ok {
						st.Assume(Le(IntLit(-1), t))
						// ... and never passes the length captured before the loop: `if index+1 < n`
						if bo, ok := s.Val.(*ssa.BinOp); ok && bo.Op == token.ADD {
							for _, in2 := range li.head.Instrs {
								if cmp, ok := in2.(*ssa.BinOp); ok && cmp.Op == token.LSS && cmp.X == bo {
									if n, ok := f.regs[cmp.Y].(*Term); ok {
										st.Assume(Le(Add(t, IntLit(1)), n))
									}
								}
							}
						}
					}
				}
			}
		}
	}
	// built-in invariant of counting loops `for i := 0; ...; i++`: i never goes below 0
	if a := countingVar(li); a != nil {
		if cell := f.cellsByA[a]; cell != nil {
			if t, ok := st.cells[cell].(*Term); ok {
				st.Assume(Le(IntLit(0), t))
			}
		}
	}
	entry := &LoopEntry{trace: st.trace, ordinal: ord, cells: map[*Cell]Val{}}
	for k, v := range st.cells {
		entry.cells[k] = v
	}
	if spec != nil {
		ctx2 := x.newSpecCtx(st, f, f.fn)
		ctx2.loop = li
		if host != f {
			ctx2.host = host
		}
		x.bindLoopLets(ctx2, st, host)
		for _, inv := range spec.Invariants {
			st.Assume(ctx2.boolExpr(inv.E, false))
		}
		for _, d := range spec.Decreases {
			entry.dec = append(entry.dec, ctx2.intExpr(d.E))
		}
	}
	f.active[li.head] = entry
	if len(st.frames) == 1 {
		if st.loopTrace == nil {
			st.loopTrace = map[int]*Term{}
		}
		st.loopTrace[entry.ordinal] = entry.trace
	}
	return true
}

// lexLess: now < old lexicographically, each component bounded below by 0 at the old value
func lexLess(now, old []*Term) *Term {
	if len(now) == 0 {
		return tTrue
	}
	strict := And(Lt(now[0], old[0]), Le(IntLit(0), old[0]))
	if len(now) == 1 {
		return strict
	}
	return Or(strict, And(Eq(now[0], old[0]), lexLess(now[1:], old[1:])))
}

func (x *Exec) blockPos(b *ssa.BasicBlock) token.Pos {
	for _, in := range b.Instrs {
		if in.Pos().IsValid() {
			return in.Pos()
		}
	}
	for _, s := range b.Succs {
		for _, in := range s.Instrs {
			if in.Pos().IsValid() {
				return in.Pos()
			}
		}
	}
	return token.NoPos
}

func (x *Exec) havocCell(st *State, c *Cell) {
	old, ok := st.cells[c]
	if !ok {
		return
	}
	t, isTerm := old.(*Term)
	if !isTerm {
		if o, isOwned := old.(*Owned); isOwned {
			// the variable is re-assigned in the loop (e.g. s = append(s, x)): from here on it is an ordinary sequence value
			st.owned[o.id].frozen = true
			t = x.ownedTerm(st, o)
		} else {
			return // closures are assigned once
		}
	}
	nv := st.Fresh(c.name, t.Sort)
	nv.T = c.typ
	if st.views[t.S] {
		st.views[nv.S] = true
	}
	st.cells[c] = nv
	x.assumeWF(st, nv)
}

func (x *Exec) havocLoop(st *State, f *Frame, li *LoopInfo) {
	heapNames := map[string]bool{}
	ownedWritten := map[int]bool{}
	loopAlloc := st.allocCtr
	cells := map[*Cell]bool{}
	dyn := false
	allocates := false
	markRoot := func(root ssa.Value) {
		switch r := root.(type) {
		case *ssa.Alloc:
			if c := f.cellsByA[r]; c != nil {
				cells[c] = true
			}
		case *ssa.FreeVar:
			for i, fv := range f.fn.FreeVars {
				if fv == r {
					if a, ok := f.bind[i].(*Addr); ok && a.Cell != nil {
						cells[a.Cell] = true
					}
				}
			}
		}
	}
	for _, b := range f.fn.Blocks {
		if !li.body[b] {
			continue
		}
		for _, in := range b.Instrs {
			switch in := in.(type) {
			case *ssa.Store:
				markRoot(rootOf(in.Addr))
				// element write into a freshly made slice held in a local: its content is re-abstracted at the loop head
				if ia, ok := in.Addr.(*ssa.IndexAddr); ok {
					if ld, ok := ia.X.(*ssa.UnOp); ok {
						if al, ok := ld.X.(*ssa.Alloc); ok {
							if cell := f.cellsByA[al]; cell != nil {
								if o, ok := st.cells[cell].(*Owned); ok {
									ownedWritten[o.id] = true
								}
							}
						}
					}
				}
				_, rootIsAlloc := rootOf(in.Addr).(*ssa.Alloc)
				if al, ok := rootOf(in.Addr).(*ssa.Alloc); ok && !li.body[al.Block()] {
					rootIsAlloc = false // allocated before the loop: an existing object from the loop's point of view
				}
				for _, n := range x.heapTargets(in.Addr) {
					mergeEff(heapNames, n, !rootIsAlloc)
				}
			case *ssa.MapUpdate:
				mt := in.Map.Type().Underlying().(*types.Map)
				d, v := x.reg.MapArrays(x.reg.SortOf(mt.Key()), x.reg.SortOf(mt.Elem()))
				heapNames[d], heapNames[v] = true, true
			case *ssa.Alloc:
				allocates = true
				if !allocIsCell(in) {
					for _, n := range x.arraysOfType(in.Type().Underlying().(*types.Pointer).Elem()) {
						mergeEff(heapNames, n, false)
					}
				}
			case *ssa.MakeMap:
				allocates = true
				mt := in.Type().Underlying().(*types.Map)
				d, v := x.reg.MapArrays(x.reg.SortOf(mt.Key()), x.reg.SortOf(mt.Elem()))
				mergeEff(heapNames, d, false)
				mergeEff(heapNames, v, false)
			case *ssa.MakeSlice, *ssa.MakeClosure:
				allocates = true
			case *ssa.Next:
				if it, ok := f.regs[in.Iter].(*Iter); ok {
					x.havocIter(st, it)
				}
			case ssa.CallInstruction:
				c := in.Common()
				allocates = true
				for n, full := range x.callEffects(c, f.fn) {
					mergeEff(heapNames, n, full)
				}
				if !c.IsInvoke() && c.StaticCallee() == nil {
					if _, isB := c.Value.(*ssa.Builtin); !isB {
						dyn = true
					}
				}
				if callee := c.StaticCallee(); callee != nil && callee.Parent() != nil {
					dyn = true
				}
			}
		}
	}
	if dyn {
		// closures of this function (or of its parent) may be called: their writes to captured cells and to the heap
		top := f.fn
		for _, b := range top.Blocks {
			for _, in := range b.Instrs {
				mc, ok := in.(*ssa.MakeClosure)
				if !ok {
					continue
				}
				anon := mc.Fn.(*ssa.Function)
				for n, full := range x.effectsOf(anon) {
					mergeEff(heapNames, n, full)
				}
				for _, ab := range anon.Blocks {
					for _, ain := range ab.Instrs {
						if s, ok := ain.(*ssa.Store); ok {
							if fv, ok := rootOf(s.Addr).(*ssa.FreeVar); ok {
								for k, afv := range anon.FreeVars {
									if afv == fv {
										markRoot(rootOf(mc.Bindings[k]))
									}
								}
							}
						}
					}
				}
			}
		}
		// a closure running in this frame may itself call sibling closures through captured cells: conservative
		for i := range f.fn.FreeVars {
			if a, ok := f.bind[i].(*Addr); ok && a.Cell != nil {
				if _, isTerm := st.cells[a.Cell].(*Term); isTerm {
					_ = a
				}
			}
		}
	}
	var cellList []*Cell
	for c := range cells {
		cellList = append(cellList, c)
	}
	sort.Slice(cellList, func(i, j int) bool { return cellList[i].id < cellList[j].id })
	for _, c := range cellList {
		x.havocCell(st, c)
	}
	var ownedIds []int
	for id := range ownedWritten {
		ownedIds = append(ownedIds, id)
	}
	sort.Ints(ownedIds)
	for _, id := range ownedIds {
		os := st.owned[id]
		e := seqElem(os.content.Sort)
		nc := st.Fresh("owned", os.content.Sort)
		st.Assume(Eq(App("Int", "len_"+e, nc), App("Int", "len_"+e, os.content)))
		os.content = nc
		os.depth = x.loopDepth(st) + 1
	}
	for _, n := range sortedEffKeys(heapNames) {
		full := heapNames[n]
		switch n {
		case "$trace":
			x.havocTrace(st)
		case "$slice":
			x.unsupported(st, x.blockPos(li.head), "loop writes slice elements in place")
		default:
			x.heapHavoc(st, n, full, loopAlloc)
		}
	}
	if allocates {
		na := st.Fresh("alloc", "Int")
		st.Assume(Le(st.allocCtr, na))
		st.allocCtr = na
	}
}

func (x *Exec) havocTrace(st *State) {
	old := st.trace
	st.trace = st.Fresh("trace", old.Sort)
	// the trace only grows
	st.Assume(App("Bool", "tr_prefix", old, st.trace))
}

func (x *Exec) havocIter(st *State, it *Iter) {
	is := st.iters[it.id]
	if is == nil {
		return
	}
	if it.isStr {
		np := st.Fresh("iterpos", "Int")
		st.Assume(And(Le(IntLit(0), np), Le(np, App("Int", "slen", it.coll))))
		is.pos = np
	} else if it.isMap {
		is.done = st.Fresh("iterdone", is.done.Sort)
	}
}

// bindLoopLets makes the contract's entry-state abbreviations (let) available to loop invariants
func (x *Exec) bindLoopLets(ctx *SpecCtx, st *State, f *Frame) {
	con := x.contractOf(f.fn)
	if con == nil || len(con.Lets) == 0 || !f.isTop {
		return
	}
	tmp := x.newSpecCtx(st, nil, f.fn)
	tmp.bindParams(f.fn, f.params)
	tmp.evalLetsOld(con)
	for _, l := range con.Lets {
		ctx.vars[l.Name] = tmp.vars[l.Name]
	}
}
