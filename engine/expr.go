package main

// Assertion-language parser: Go expression syntax plus
//   ==>  <==>  forall/exists x T, y U :: body   old(e)   a ++ b   k in m
//   c ? a : b     let x = e in body
// Produces a small AST that spec.go translates to SMT terms.

import (
	"fmt"
	"strings"
	"unicode"
)

type Expr struct {
	Op   string  // "id","int","str","char","bin","un","call","field","index","slice","quant","old","ite","let","nil","bool"
	Name string  // identifier, operator, field name, function name, quantifier kind
	Args []*Expr // operands
	// quantifier / let binders
	Binders []Binder
	Trig    [][]*Expr
	Pos     int
}

type Binder struct {
	Name string
	Type string // Go type syntax (raw)
}

type tokKind int

const (
	tEOF tokKind = iota
	tIdent
	tInt
	tStr
	tChar
	tOp
)

type tok struct {
	k   tokKind
	s   string
	pos int
}

type lex struct {
	src  string
	toks []tok
	p    int
}

var ops3 = []string{"<==>", "==>", "...", "&&", "||", "==", "!=", "<=", ">=", "++", "::", ":="}

func lexExpr(src string) ([]tok, error) {
	var out []tok
	i := 0
	for i < len(src) {
		c := src[i]
		switch {
		case c == ' ' || c == '\t' || c == '\n' || c == '\r':
			i++
		case unicode.IsLetter(rune(c)) || c == '_' || c == '$':
			j := i + 1
			for j < len(src) && (unicode.IsLetter(rune(src[j])) || unicode.IsDigit(rune(src[j])) || src[j] == '_' || src[j] == '$' || src[j] == '#') {
				j++
			}
			out = append(out, tok{tIdent, src[i:j], i})
			i = j
		case c >= '0' && c <= '9':
			j := i + 1
			for j < len(src) && src[j] >= '0' && src[j] <= '9' {
				j++
			}
			out = append(out, tok{tInt, src[i:j], i})
			i = j
		case c == '"':
			j := i + 1
			var sb strings.Builder
			for j < len(src) && src[j] != '"' {
				if src[j] == '\\' && j+1 < len(src) {
					j++
					switch src[j] {
					case 'n':
						sb.WriteByte('\n')
					case 't':
						sb.WriteByte('\t')
					default:
						sb.WriteByte(src[j])
					}
				} else {
					sb.WriteByte(src[j])
				}
				j++
			}
			if j >= len(src) {
				return nil, fmt.Errorf("unterminated string at %d", i)
			}
			out = append(out, tok{tStr, sb.String(), i})
			i = j + 1
		case c == '\'':
			// char literal
			j := i + 1
			var ch byte
			if j < len(src) && src[j] == '\\' {
				j++
				switch src[j] {
				case 'n':
					ch = '\n'
				case 't':
					ch = '\t'
				default:
					ch = src[j]
				}
			} else if j < len(src) {
				ch = src[j]
			}
			j++
			if j >= len(src) || src[j] != '\'' {
				return nil, fmt.Errorf("bad char literal at %d", i)
			}
			out = append(out, tok{tChar, fmt.Sprint(int(ch)), i})
			i = j + 1
		default:
			matched := false
			for _, o := range ops3 {
				if strings.HasPrefix(src[i:], o) {
					out = append(out, tok{tOp, o, i})
					i += len(o)
					matched = true
					break
				}
			}
			if !matched {
				out = append(out, tok{tOp, string(c), i})
				i++
			}
		}
	}
	out = append(out, tok{tEOF, "", len(src)})
	return out, nil
}

type eparser struct {
	toks []tok
	p    int
	src  string
	noIn int
}

func ParseExpr(src string) (e *Expr, err error) {
	toks, err := lexExpr(src)
	if err != nil {
		return nil, err
	}
	p := &eparser{toks: toks, src: src}
	defer func() {
		if r := recover(); r != nil {
			if s, ok := r.(perr); ok {
				err = fmt.Errorf("%s (in %q)", string(s), src)
				return
			}
			panic(r)
		}
	}()
	e = p.expr()
	if p.peek().k != tEOF {
		p.fail("unexpected %q", p.peek().s)
	}
	return e, nil
}

type perr string

func (p *eparser) fail(f string, a ...interface{}) {
	panic(perr(fmt.Sprintf("spec parse error at %d: ", p.peek().pos) + fmt.Sprintf(f, a...)))
}
func (p *eparser) peek() tok { return p.toks[p.p] }
func (p *eparser) next() tok { t := p.toks[p.p]; p.p++; return t }
func (p *eparser) isOp(s string) bool {
	t := p.peek()
	return t.k == tOp && t.s == s
}
func (p *eparser) isId(s string) bool {
	t := p.peek()
	return t.k == tIdent && t.s == s
}
func (p *eparser) accept(s string) bool {
	if p.isOp(s) {
		p.p++
		return true
	}
	return false
}
func (p *eparser) expect(s string) {
	if !p.accept(s) {
		p.fail("expected %q, got %q", s, p.peek().s)
	}
}

// precedence climbing
// 1: <==>   2: ==> (right)   3: ?:  4: ||   5: &&   6: comparisons, in   7: + - ++   8: * / %   9: unary   10: postfix
func (p *eparser) expr() *Expr {
	if p.isId("forall") || p.isId("exists") {
		return p.quant()
	}
	if p.isId("let") {
		pos := p.next().pos
		name := p.next()
		if name.k != tIdent {
			p.fail("let: expected identifier")
		}
		if !p.accept("=") && !p.accept(":=") {
			p.fail("let: expected =")
		}
		p.noIn++
		v := p.expr1()
		p.noIn--
		if !p.isId("in") {
			p.fail("let: expected 'in'")
		}
		p.next()
		body := p.expr()
		return &Expr{Op: "let", Binders: []Binder{{Name: name.s}}, Args: []*Expr{v, body}, Pos: pos}
	}
	return p.iff()
}

// expr1: expression not extending over 'in' (used for let values)
func (p *eparser) expr1() *Expr { return p.iff() }

func (p *eparser) quant() *Expr {
	k := p.next()
	var bs []Binder
	for {
		n := p.next()
		if n.k != tIdent {
			p.fail("quantifier: expected variable name")
		}
		// type: raw tokens until ',' or '::'
		start := p.peek().pos
		depth := 0
		for {
			t := p.peek()
			if t.k == tEOF {
				p.fail("quantifier: unterminated binder")
			}
			if t.k == tOp && (t.s == "[" || t.s == "(") {
				depth++
			}
			if t.k == tOp && (t.s == "]" || t.s == ")") {
				depth--
			}
			if depth == 0 && t.k == tOp && (t.s == "," || t.s == "::") {
				break
			}
			p.next()
		}
		typ := strings.TrimSpace(p.src[start:p.peek().pos])
		bs = append(bs, Binder{Name: n.s, Type: typ})
		if p.accept(",") {
			continue
		}
		p.expect("::")
		break
	}
	// back-fill empty types from the next binder (x, y int)
	for i := len(bs) - 2; i >= 0; i-- {
		if bs[i].Type == "" {
			bs[i].Type = bs[i+1].Type
		}
	}
	var trigs [][]*Expr
	for p.isOp("{") {
		p.next()
		var tr []*Expr
		for {
			tr = append(tr, p.iff())
			if !p.accept(",") {
				break
			}
		}
		p.expect("}")
		trigs = append(trigs, tr)
	}
	body := p.expr()
	return &Expr{Op: "quant", Name: k.s, Binders: bs, Trig: trigs, Args: []*Expr{body}, Pos: k.pos}
}

func (p *eparser) iff() *Expr {
	l := p.implies()
	for p.isOp("<==>") {
		t := p.next()
		r := p.implies()
		l = &Expr{Op: "bin", Name: "<==>", Args: []*Expr{l, r}, Pos: t.pos}
	}
	return l
}

func (p *eparser) implies() *Expr {
	l := p.cond()
	if p.isOp("==>") {
		t := p.next()
		var r *Expr
		if p.isId("forall") || p.isId("exists") || p.isId("let") {
			r = p.expr()
		} else {
			r = p.implies()
		}
		return &Expr{Op: "bin", Name: "==>", Args: []*Expr{l, r}, Pos: t.pos}
	}
	return l
}

func (p *eparser) cond() *Expr {
	c := p.or()
	if p.isOp("?") {
		t := p.next()
		a := p.cond()
		p.expect(":")
		b := p.cond()
		return &Expr{Op: "ite", Args: []*Expr{c, a, b}, Pos: t.pos}
	}
	return c
}

func (p *eparser) or() *Expr {
	l := p.and()
	for p.isOp("||") {
		t := p.next()
		r := p.and()
		l = &Expr{Op: "bin", Name: "||", Args: []*Expr{l, r}, Pos: t.pos}
	}
	return l
}

func (p *eparser) and() *Expr {
	l := p.cmp()
	for p.isOp("&&") {
		t := p.next()
		var r *Expr
		if p.isId("forall") || p.isId("exists") || p.isId("let") {
			r = p.expr()
		} else {
			r = p.cmp()
		}
		l = &Expr{Op: "bin", Name: "&&", Args: []*Expr{l, r}, Pos: t.pos}
	}
	return l
}

func (p *eparser) cmp() *Expr {
	l := p.add()
	for {
		t := p.peek()
		if t.k == tOp && (t.s == "==" || t.s == "!=" || t.s == "<" || t.s == "<=" || t.s == ">" || t.s == ">=") {
			p.next()
			r := p.add()
			l = &Expr{Op: "bin", Name: t.s, Args: []*Expr{l, r}, Pos: t.pos}
			continue
		}
		if t.k == tIdent && t.s == "in" {
			// `k in m` -- but not the 'in' of let: let values use expr1 which stops... we disambiguate:
			// 'in' after a let value is consumed by let; here we only treat it as membership when inside parens or
			// when the parser is not in a let value. We mark let-values by p.noIn.
			if p.noIn > 0 {
				return l
			}
			p.next()
			r := p.add()
			l = &Expr{Op: "bin", Name: "in", Args: []*Expr{l, r}, Pos: t.pos}
			continue
		}
		return l
	}
}

func (p *eparser) add() *Expr {
	l := p.mul()
	for {
		t := p.peek()
		if t.k == tOp && (t.s == "+" || t.s == "-" || t.s == "++") {
			p.next()
			r := p.mul()
			l = &Expr{Op: "bin", Name: t.s, Args: []*Expr{l, r}, Pos: t.pos}
			continue
		}
		return l
	}
}

func (p *eparser) mul() *Expr {
	l := p.unary()
	for {
		t := p.peek()
		if t.k == tOp && (t.s == "*" || t.s == "/" || t.s == "%") {
			p.next()
			r := p.unary()
			l = &Expr{Op: "bin", Name: t.s, Args: []*Expr{l, r}, Pos: t.pos}
			continue
		}
		return l
	}
}

func (p *eparser) unary() *Expr {
	t := p.peek()
	if t.k == tOp && (t.s == "!" || t.s == "-") {
		p.next()
		x := p.unary()
		return &Expr{Op: "un", Name: t.s, Args: []*Expr{x}, Pos: t.pos}
	}
	return p.postfix()
}

func (p *eparser) postfix() *Expr {
	e := p.primary()
	for {
		t := p.peek()
		switch {
		case t.k == tOp && t.s == ".":
			p.next()
			n := p.next()
			if n.k != tIdent {
				p.fail("expected field name")
			}
			e = &Expr{Op: "field", Name: n.s, Args: []*Expr{e}, Pos: t.pos}
		case t.k == tOp && t.s == "[":
			p.next()
			if p.accept(":") {
				hi := p.expr()
				p.expect("]")
				e = &Expr{Op: "slice", Args: []*Expr{e, nil, hi}, Pos: t.pos}
				continue
			}
			lo := p.expr()
			if p.accept(":") {
				if p.accept("]") {
					e = &Expr{Op: "slice", Args: []*Expr{e, lo, nil}, Pos: t.pos}
					continue
				}
				hi := p.expr()
				p.expect("]")
				e = &Expr{Op: "slice", Args: []*Expr{e, lo, hi}, Pos: t.pos}
				continue
			}
			p.expect("]")
			e = &Expr{Op: "index", Args: []*Expr{e, lo}, Pos: t.pos}
		case t.k == tOp && t.s == "(" && (e.Op == "id" || e.Op == "field"):
			p.next()
			var args []*Expr
			if !p.isOp(")") {
				for {
					args = append(args, p.expr())
					if !p.accept(",") {
						break
					}
				}
			}
			p.expect(")")
			if e.Op == "id" {
				if e.Name == "old" {
					if len(args) != 1 {
						p.fail("old takes one argument")
					}
					e = &Expr{Op: "old", Args: args, Pos: t.pos}
				} else {
					e = &Expr{Op: "call", Name: e.Name, Args: args, Pos: t.pos}
				}
			} else {
				// pkg.Func(...) or recv.method(...) -- encode as call with qualified name
				e = &Expr{Op: "call", Name: qualName(e), Args: args, Pos: t.pos}
			}
		default:
			return e
		}
	}
}

func qualName(e *Expr) string {
	if e.Op == "id" {
		return e.Name
	}
	if e.Op == "field" {
		return qualName(e.Args[0]) + "." + e.Name
	}
	return "?"
}

func (p *eparser) primary() *Expr {
	t := p.next()
	switch t.k {
	case tIdent:
		switch t.s {
		case "true", "false":
			return &Expr{Op: "bool", Name: t.s, Pos: t.pos}
		case "nil":
			return &Expr{Op: "nil", Pos: t.pos}
		case "forall", "exists", "let":
			p.p--
			return p.expr()
		}
		return &Expr{Op: "id", Name: t.s, Pos: t.pos}
	case tInt:
		return &Expr{Op: "int", Name: t.s, Pos: t.pos}
	case tChar:
		return &Expr{Op: "int", Name: t.s, Pos: t.pos}
	case tStr:
		return &Expr{Op: "str", Name: t.s, Pos: t.pos}
	case tOp:
		if t.s == "(" {
			save := p.noIn
			p.noIn = 0
			e := p.expr()
			p.noIn = save
			p.expect(")")
			return e
		}
	}
	p.p--
	p.fail("unexpected %q", t.s)
	return nil
}
