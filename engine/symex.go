package main

import (
	"fmt"
	"go/constant"
	"go/token"
	"go/types"
	"strings"

	"golang.org/x/tools/go/ssa"
)

type Outcome struct {
	st       *State
	results  []Val
	panicked bool // st.panicking holds the value
	exited   bool // the process-exit function was called (assumption A-exit: it does not return)
}

type unsupported struct{ msg string }

func (x *Exec) unsupported(st *State, pos token.Pos, f string, a ...interface{}) {
	panic(unsupported{fmt.Sprintf("%s: ", x.posStr(pos)) + fmt.Sprintf(f, a...)})
}

func (x *Exec) posStr(p token.Pos) string {
	if !p.IsValid() {
		return "?"
	}
	ps := x.prog.Fset.Position(p)
	return fmt.Sprintf("%s:%d", shortFile(ps.Filename), ps.Line)
}

func shortFile(f string) string {
	return strings.TrimPrefix(f, "/repo/")
}

// ---------------------------------------------------------------------------
// values

func (x *Exec) zero(st *State, t types.Type) *Term {
	sort := x.reg.SortOf(t)
	var r *Term
	switch {
	case sort == "Int":
		r = IntLit(0)
	case sort == "Bool":
		r = tFalse
	case sort == "Str":
		r = mk("Str", "sempty")
	case sort == "F64":
		r = x.reg.Global("f64_zero", "F64")
	case sort == "Iface":
		r = mk("Iface", "inil")
	case isSeq(sort):
		if at, ok := t.Underlying().(*types.Array); ok {
			n := at.Len()
			s := st.Fresh("arr", sort)
			e := seqElem(sort)
			st.Assume(Eq(App("Int", "len_"+e, s), IntLit(n)))
			if n <= 8 {
				z := x.zero(st, at.Elem())
				for i := int64(0); i < n; i++ {
					st.Assume(Eq(App(z.Sort, "at_"+e, s, IntLit(i)), z))
				}
			}
			r = s
		} else {
			r = mk(sort, "nil_"+seqElem(sort))
		}
	default:
		if si, ok := x.reg.structs[sort]; ok {
			var fs []*Term
			for _, f := range si.Fields {
				fs = append(fs, x.zero(st, f.T))
			}
			if len(fs) == 0 {
				r = mk(sort, "mk_"+sort)
			} else {
				r = App(sort, "mk_"+sort, fs...)
			}
		} else {
			r = st.Fresh("zero", sort)
		}
	}
	r = &Term{S: r.S, Sort: r.Sort, T: t}
	return r
}

func (x *Exec) constVal(st *State, c *ssa.Const) Val {
	t := c.Type()
	if c.Value == nil {
		return x.zero(st, t)
	}
	switch c.Value.Kind() {
	case constant.Bool:
		return mkT("Bool", BoolLit(constant.BoolVal(c.Value)).S, t)
	case constant.Int:
		n, _ := constant.Int64Val(c.Value)
		r := IntLit(n)
		r.T = t
		if x.reg.SortOf(t) == "F64" {
			return x.f64const(fmt.Sprint(n), t)
		}
		return r
	case constant.String:
		r := x.reg.StrLit(constant.StringVal(c.Value))
		return mkT("Str", r.S, t)
	case constant.Float:
		if x.reg.SortOf(t) == "F64" {
			return x.f64const(c.Value.ExactString(), t)
		}
		n, _ := constant.Int64Val(constant.ToInt(c.Value))
		return IntLit(n)
	}
	x.unsupported(st, c.Pos(), "constant %v", c)
	return nil
}

func (x *Exec) f64const(s string, t types.Type) *Term {
	g := x.reg.Global("f64c_"+sanitize(s), "F64")
	return mkT("F64", g.S, t)
}

func (x *Exec) eval(st *State, v ssa.Value) Val {
	f := st.top()
	switch v := v.(type) {
	case *ssa.Const:
		return x.constVal(st, v)
	case *ssa.Global:
		return x.globalAddr(v)
	case *ssa.Function:
		return &FuncRef{v}
	case *ssa.FreeVar:
		for i, fv := range f.fn.FreeVars {
			if fv == v {
				return f.bind[i]
			}
		}
		x.unsupported(st, v.Pos(), "free var %s not bound", v.Name())
	case *ssa.Builtin:
		return v
	}
	r, ok := f.regs[v]
	if !ok {
		x.unsupported(st, v.Pos(), "value %s (%T) not evaluated in %s", v.Name(), v, f.fn.Name())
	}
	return r
}

func (x *Exec) globalAddr(g *ssa.Global) *Addr {
	name := "g_" + sanitize(g.Pkg.Pkg.Name()+"_"+g.Name())
	id, ok := x.globalIds[name]
	if !ok {
		id = -(len(x.globalIds) + 1)
		x.globalIds[name] = id
	}
	elem := g.Type().(*types.Pointer).Elem()
	a := &Addr{Ref: IntLit(int64(id)), Elem: elem}
	if x.structOf(elem) == nil {
		// a scalar package-level variable lives in an array of its own, so that writes through pointers of the same type
		// (and the havoc of user-reconfigurable state) cannot touch it
		a.GlobalArr = "GV_" + sanitize(g.Pkg.Pkg.Name()+"_"+g.Name())
		x.reg.declHeap(a.GlobalArr, "Int", x.reg.SortOf(elem))
	}
	return a
}

// term converts a Val to an SMT term
func (x *Exec) term(st *State, v Val, pos token.Pos) *Term {
	switch v := v.(type) {
	case *Term:
		return v
	case *FuncRef:
		return x.funcTerm(v.Fn)
	case *Owned:
		st.owned[v.id].frozen = true
		return x.ownedTerm(st, v)
	case *Addr:
		if len(v.Path) == 0 && v.Ref != nil {
			return mkT("Int", v.Ref.S, types.NewPointer(v.Elem))
		}
		x.unsupported(st, pos, "address of local or interior pointer used as a value")
	case *Closure:
		// closure escaping as a value: give it an opaque identity and remember it
		id := x.closureTerm(st, v)
		return id
	case nil:
		x.unsupported(st, pos, "nil value")
	}
	x.unsupported(st, pos, "cannot convert %T to a term", v)
	return nil
}

func (x *Exec) funcTerm(fn *ssa.Function) *Term {
	name := "fn_" + sanitize(fn.String())
	id, ok := x.funcIds[name]
	if !ok {
		id = -(1000 + len(x.funcIds))
		x.funcIds[name] = id
		x.funcById[id] = fn
	}
	return mkT("Int", IntLit(int64(id)).S, fn.Signature)
}

func (x *Exec) closureTerm(st *State, c *Closure) *Term {
	t := st.Fresh("closure", "Int")
	st.Assume(Lt(t, IntLit(-100000)))
	if st.closures == nil {
		st.closures = map[string]*Closure{}
	}
	st.closures[t.S] = c
	return mkT("Int", t.S, c.Fn.Signature)
}

// ---------------------------------------------------------------------------
// addresses

func (x *Exec) addrOf(st *State, v Val, ptrType types.Type, pos token.Pos) *Addr {
	switch v := v.(type) {
	case *Addr:
		return v
	case *Term:
		pt, ok := ptrType.Underlying().(*types.Pointer)
		if !ok {
			x.unsupported(st, pos, "deref of non-pointer %s", ptrType)
		}
		return &Addr{Ref: v, Elem: pt.Elem()}
	}
	x.unsupported(st, pos, "cannot take address from %T", v)
	return nil
}

func (x *Exec) checkNonNil(st *State, ref *Term, pos token.Pos) {
	if strings.HasPrefix(ref.S, "(- ") || st.nonnil[ref.S] {
		return
	}
	x.oblige(st, "safety", "nil-deref", Not(Eq(ref, IntLit(0))), pos)
	if st.nonnil == nil {
		st.nonnil = map[string]bool{}
	}
	st.nonnil[ref.S] = true
}

// typeAt walks a path over Go types
func stepType(t types.Type, pe PathElem) types.Type {
	switch u := t.Underlying().(type) {
	case *types.Struct:
		return u.Field(pe.Field).Type()
	case *types.Array:
		return u.Elem()
	case *types.Slice:
		return u.Elem()
	}
	return nil
}

func (x *Exec) project(st *State, v *Term, t types.Type, path []PathElem, pos token.Pos) *Term {
	for _, pe := range path {
		if pe.IsIndex {
			e := seqElem(v.Sort)
			nt := stepType(t, pe)
			x.oblige(st, "safety", "index", And(Le(IntLit(0), pe.Index), Lt(pe.Index, App("Int", "len_"+e, v))), pos)
			v = mkT(e, App(e, "at_"+e, v, pe.Index).S, nt)
			t = nt
		} else {
			si := x.reg.structs[v.Sort]
			if si == nil {
				x.unsupported(st, pos, "field access on non-struct sort %s", v.Sort)
			}
			f := si.Fields[pe.Field]
			v = mkT(f.Sort, App(f.Sort, v.Sort+"_"+f.Name, v).S, f.T)
			t = f.T
		}
	}
	return v
}

func (x *Exec) inject(st *State, old *Term, t types.Type, path []PathElem, nv *Term, pos token.Pos) *Term {
	if len(path) == 0 {
		return nv
	}
	pe := path[0]
	if pe.IsIndex {
		e := seqElem(old.Sort)
		nt := stepType(t, pe)
		x.oblige(st, "safety", "index", And(Le(IntLit(0), pe.Index), Lt(pe.Index, App("Int", "len_"+e, old))), pos)
		inner := mkT(e, App(e, "at_"+e, old, pe.Index).S, nt)
		r := App(old.Sort, "upd_"+e, old, pe.Index, x.inject(st, inner, nt, path[1:], nv, pos))
		r.T = t
		return r
	}
	si := x.reg.structs[old.Sort]
	var fs []*Term
	for i, f := range si.Fields {
		cur := mkT(f.Sort, App(f.Sort, old.Sort+"_"+f.Name, old).S, f.T)
		if i == pe.Field {
			fs = append(fs, x.inject(st, cur, f.T, path[1:], nv, pos))
		} else {
			fs = append(fs, cur)
		}
	}
	r := App(old.Sort, "mk_"+old.Sort, fs...)
	r.T = t
	return r
}

func (x *Exec) load(st *State, a *Addr, pos token.Pos) Val {
	if a.Own != nil {
		os := st.owned[a.Own.id]
		e := seqElem(os.content.Sort)
		i := Add(a.Own.off, a.Path[0].Index)
		x.oblige(st, "safety", "index", And(Le(IntLit(0), a.Path[0].Index), Lt(a.Path[0].Index, a.Own.n)), pos)
		return mkT(e, App(e, "at_"+e, os.content, i).S, stepType(a.Own.T, a.Path[0]))
	}
	if a.Cell != nil {
		v, ok := st.cells[a.Cell]
		if !ok {
			x.unsupported(st, pos, "cell %s not initialised", a.Cell.name)
		}
		if len(a.Path) == 0 {
			return v
		}
		t, ok := v.(*Term)
		if !ok {
			x.unsupported(st, pos, "path into non-term cell")
		}
		return x.project(st, t, a.Elem, a.Path, pos)
	}
	x.checkNonNil(st, a.Ref, pos)
	if si := x.structOf(a.Elem); si != nil {
		if len(a.Path) == 0 {
			var fs []*Term
			for i, f := range si.Fields {
				arr, _ := x.reg.FieldArray(si, i)
				fs = append(fs, sel(x.heapGet(st, arr), a.Ref, f.Sort))
			}
			var r *Term
			if len(fs) == 0 {
				r = mk(si.Sort, "mk_"+si.Sort)
			} else {
				r = App(si.Sort, "mk_"+si.Sort, fs...)
			}
			r.T = a.Elem
			return r
		}
		f := si.Fields[a.Path[0].Field]
		arr, _ := x.reg.FieldArray(si, a.Path[0].Field)
		v := mkT(f.Sort, sel(x.heapGet(st, arr), a.Ref, f.Sort).S, f.T)
		x.assumeWF(st, v)
		return x.project(st, v, f.T, a.Path[1:], pos)
	}
	sort := x.reg.SortOf(a.Elem)
	arr := x.reg.BoxArray(sort)
	if a.GlobalArr != "" {
		arr = a.GlobalArr
	}
	v := mkT(sort, sel(x.heapGet(st, arr), a.Ref, sort).S, a.Elem)
	x.assumeWF(st, v)
	return x.project(st, v, a.Elem, a.Path, pos)
}

func (x *Exec) structOf(t types.Type) *StructInfo {
	if _, ok := t.Underlying().(*types.Struct); ok {
		return x.reg.StructInfoOf(t)
	}
	return nil
}

func (x *Exec) store(st *State, a *Addr, v Val, pos token.Pos) {
	if a.Own != nil {
		os := st.owned[a.Own.id]
		if os.frozen {
			x.unsupported(st, pos, "write to a slice that has escaped")
		}
		e := seqElem(os.content.Sort)
		i := Add(a.Own.off, a.Path[0].Index)
		x.oblige(st, "safety", "index", And(Le(IntLit(0), a.Path[0].Index), Lt(a.Path[0].Index, a.Own.n)), pos)
		nc := App(os.content.Sort, "upd_"+e, os.content, i, x.term(st, v, pos))
		os.content = nc
		return
	}
	if a.ReadOnly {
		x.unsupported(st, pos, "in-place write to an element of a shared slice")
	}
	if a.Cell != nil {
		if len(a.Path) == 0 {
			st.cells[a.Cell] = v
			return
		}
		old, ok := st.cells[a.Cell].(*Term)
		if !ok {
			x.unsupported(st, pos, "path store into non-term cell")
		}
		nv := x.inject(st, old, a.Elem, a.Path, x.term(st, v, pos), pos)
		// name the updated aggregate: successive field stores would otherwise nest the whole previous term once per field
		if len(nv.S) > 200 {
			c := st.Fresh(a.Cell.name, nv.Sort)
			c.T = nv.T
			st.Assume(Eq(c, nv))
			nv = c
		}
		st.cells[a.Cell] = nv
		return
	}
	x.checkNonNil(st, a.Ref, pos)
	tv := x.term(st, v, pos)
	if si := x.structOf(a.Elem); si != nil {
		if len(a.Path) == 0 {
			for i, f := range si.Fields {
				arr, _ := x.reg.FieldArray(si, i)
				fv := App(f.Sort, si.Sort+"_"+f.Name, tv)
				x.heapStoreAt(st, arr, a.Ref, fv)
			}
			return
		}
		f := si.Fields[a.Path[0].Field]
		arr, _ := x.reg.FieldArray(si, a.Path[0].Field)
		h := x.heapGet(st, arr)
		nv := tv
		if len(a.Path) > 1 {
			cur := mkT(f.Sort, sel(h, a.Ref, f.Sort).S, f.T)
			nv = x.inject(st, cur, f.T, a.Path[1:], tv, pos)
		}
		x.heapStoreAt(st, arr, a.Ref, nv)
		return
	}
	sort := x.reg.SortOf(a.Elem)
	arr := x.reg.BoxArray(sort)
	if a.GlobalArr != "" {
		arr = a.GlobalArr
	}
	h := x.heapGet(st, arr)
	nv := tv
	if len(a.Path) > 0 {
		cur := mkT(sort, sel(h, a.Ref, sort).S, a.Elem)
		nv = x.inject(st, cur, a.Elem, a.Path, tv, pos)
	}
	x.heapStoreAt(st, arr, a.Ref, nv)
}

// assumeWF adds the well-formedness facts of a freshly read value (refs are allocated, ...)
func (x *Exec) assumeWF(st *State, v *Term) {
	if v.T == nil {
		return
	}
	switch u := v.T.Underlying().(type) {
	case *types.Pointer, *types.Map:
		st.AssumeOnce(Le(v, st.allocCtr))
	case *types.Basic:
		if u.Kind() == types.Uint8 {
			st.AssumeOnce(And(Le(IntLit(0), v), Lt(v, IntLit(256))))
		}
	case *types.Interface:
		st.AssumeOnce(Implies(Eq(App("Int", "itag", v), IntLit(0)), Eq(v, mk("Iface", "inil"))))
	case *types.Struct:
		if si := x.reg.structs[v.Sort]; si != nil {
			for _, f := range si.Fields {
				x.assumeWF(st, mkT(f.Sort, App(f.Sort, si.Sort+"_"+f.Name, v).S, f.T))
			}
		}
	}
}

// ---------------------------------------------------------------------------
// owned (freshly made, still private) slices

func (x *Exec) ownedTerm(st *State, o *Owned) *Term {
	os := st.owned[o.id]
	e := seqElem(os.content.Sort)
	r := App(os.content.Sort, "sub_"+e, os.content, o.off, Add(o.off, o.n))
	if o.off.S == "0" {
		// whole prefix: sub content 0 n
		r = App(os.content.Sort, "sub_"+e, os.content, IntLit(0), o.n)
	}
	r.T = o.T
	return r
}

func (x *Exec) freezeOwned(st *State, v Val) {
	if o, ok := v.(*Owned); ok {
		st.owned[o.id].frozen = true
	}
}
