package main

// Relevance pruning of the prelude: a query only carries the declarations it (transitively) mentions and the axioms
// whose trigger symbols all occur.  This keeps each query small and independent of what else was verified in the same run.

import (
	"strings"
)

type preItem struct {
	text    string
	defines []string        // symbols introduced (declare-*/define-fun/datatype constructors and accessors)
	uses    map[string]bool // other symbols mentioned
	trig    map[string]bool // asserts: symbols of the :pattern terms (empty: ground or pattern-less)
	trigs   []map[string]bool // one set per alternative outermost pattern
	isAxiom bool
	quant   bool
}

type Pruner struct {
	items []*preItem
	byDef map[string][]*preItem
}

var smtBuiltin = map[string]bool{
	"and": true, "or": true, "not": true, "=>": true, "=": true, "ite": true, "forall": true, "exists": true, "let": true, "!": true,
	"select": true, "store": true, "as": true, "const": true, "Array": true, "Int": true, "Bool": true, "true": true, "false": true,
	"+": true, "-": true, "*": true, "div": true, "mod": true, "<": true, "<=": true, ">": true, ">=": true, "distinct": true,
	"assert": true, "declare-fun": true, "declare-const": true, "declare-sort": true, "define-fun": true, "declare-datatypes": true,
	":pattern": true, "set-option": true, ":produce-models": true, "check-sat": true,
}

var ubiquitous = map[string]bool{"slen": true, "sat": true, "ssub": true, "scat": true, "sempty": true, "Str": true, "itag": true, "ival": true,
	"iface": true, "Iface": true, "inil": true, "FZ": true, "FS": true, "Fuel": true, "fpred": true, "str_eq": true, "F64": true}

func smtTokens(s string) []string {
	var out []string
	cur := strings.Builder{}
	flush := func() {
		if cur.Len() > 0 {
			out = append(out, cur.String())
			cur.Reset()
		}
	}
	for i := 0; i < len(s); i++ {
		c := s[i]
		switch c {
		case '(', ')', ' ', '\n', '\t':
			flush()
		case ';':
			flush()
			for i < len(s) && s[i] != '\n' {
				i++
			}
		default:
			cur.WriteByte(c)
		}
	}
	flush()
	return out
}

// splitTopLevel splits SMT-LIB text into top-level forms
func splitTopLevel(s string) []string {
	var out []string
	depth := 0
	start := -1
	for i := 0; i < len(s); i++ {
		switch s[i] {
		case ';':
			if depth == 0 {
				for i < len(s) && s[i] != '\n' {
					i++
				}
			}
		case '(':
			if depth == 0 {
				start = i
			}
			depth++
		case ')':
			depth--
			if depth == 0 && start >= 0 {
				out = append(out, s[start:i+1])
				start = -1
			}
		}
	}
	return out
}

func isNumeral(t string) bool {
	if t == "" {
		return false
	}
	for _, c := range t {
		if c < '0' || c > '9' {
			return false
		}
	}
	return true
}

func NewPruner(prelude string) *Pruner {
	p := &Pruner{byDef: map[string][]*preItem{}}
	for _, f := range splitTopLevel(prelude) {
		toks := smtTokens(f)
		if len(toks) == 0 {
			continue
		}
		it := &preItem{text: f, uses: map[string]bool{}, trig: map[string]bool{}}
		head := toks[0]
		switch head {
		case "set-option":
			it.defines = []string{"$always"}
		case "declare-sort", "declare-fun", "declare-const", "define-fun":
			it.defines = []string{toks[1]}
			for _, t := range toks[2:] {
				if !smtBuiltin[t] && !isNumeral(t) {
					it.uses[t] = true
				}
			}
		case "declare-datatypes":
			// the sort, its constructors and accessors are introduced here; tokens naming earlier declarations are uses
			for _, t := range toks[1:] {
				if smtBuiltin[t] || isNumeral(t) {
					continue
				}
				if _, known := p.byDef[t]; known {
					it.uses[t] = true
				} else {
					dup := false
					for _, d := range it.defines {
						if d == t {
							dup = true
						}
					}
					if !dup {
						it.defines = append(it.defines, t)
					}
				}
			}
		case "assert":
			it.isAxiom = true
			it.quant = strings.Contains(f, "(forall ")
			for _, t := range toks[1:] {
				if !smtBuiltin[t] && !isNumeral(t) {
					it.uses[t] = true
				}
			}
			// trigger symbols: tokens of the :pattern groups of the outermost quantifier only
			type pat struct {
				depth int
				text  string
			}
			var pats []pat
			depth := 0
			for i := 0; i < len(f); i++ {
				switch f[i] {
				case '(':
					depth++
				case ')':
					depth--
				case ':':
					if strings.HasPrefix(f[i:], ":pattern (") {
						j := i + len(":pattern ")
						d2 := 0
						end := j
						for ; end < len(f); end++ {
							if f[end] == '(' {
								d2++
							}
							if f[end] == ')' {
								d2--
								if d2 == 0 {
									break
								}
							}
						}
						pats = append(pats, pat{depth, f[j : end+1]})
						i = end
					}
				}
			}
			minDepth := 1 << 30
			for _, p := range pats {
				if p.depth < minDepth {
					minDepth = p.depth
				}
			}
			for _, p := range pats {
				if p.depth == minDepth {
					g := map[string]bool{}
					for _, t := range smtTokens(p.text) {
						if !smtBuiltin[t] && !isNumeral(t) {
							it.trig[t] = true
							g[t] = true
						}
					}
					it.trigs = append(it.trigs, g)
				}
			}
		default:
			it.defines = []string{"$always"}
		}
		p.items = append(p.items, it)
		for _, d := range it.defines {
			p.byDef[d] = append(p.byDef[d], it)
		}
	}
	return p
}

// Prune returns the part of the prelude relevant to body (the query's own declarations and assertions)
func (p *Pruner) Prune(body string) string {
	live := map[string]bool{"$always": true}
	for _, t := range smtTokens(body) {
		if !smtBuiltin[t] && !isNumeral(t) {
			live[t] = true
		}
	}
	included := map[*preItem]bool{}
	addUses := func(it *preItem) bool {
		ch := false
		for u := range it.uses {
			if !live[u] {
				live[u] = true
				ch = true
			}
		}
		return ch
	}
	for changed := true; changed; {
		changed = false
		for _, it := range p.items {
			if included[it] {
				continue
			}
			take := false
			if it.isAxiom {
				if len(it.trig) > 0 {
					// all trigger symbols that are declared somewhere must be live (bound variables are not declared)
					for _, g := range it.trigs {
						ok := true
						for t := range g {
							if _, declared := p.byDef[t]; declared && !live[t] {
								ok = false
								break
							}
						}
						if ok {
							take = true
							break
						}
					}
				} else if !it.quant {
					// ground fact (e.g. the bytes of a string literal): relevant when every declared symbol it mentions,
					// other than the ubiquitous theory functions, occurs in the query
					take = true
					n := 0
					for u := range it.uses {
						if _, declared := p.byDef[u]; !declared || ubiquitous[u] {
							continue
						}
						n++
						if !live[u] {
							take = false
							break
						}
					}
					if n == 0 {
						take = true
					}
				} else {
					// pattern-less quantified axiom: relevant when it shares a declared symbol with the query
					for u := range it.uses {
						if _, declared := p.byDef[u]; declared && live[u] && !ubiquitous[u] {
							take = true
							break
						}
					}
				}
			} else {
				for _, d := range it.defines {
					if live[d] {
						take = true
						break
					}
				}
			}
			if take {
				included[it] = true
				changed = true
				addUses(it)
			}
		}
	}
	var sb strings.Builder
	var lits []string
	for _, it := range p.items {
		if included[it] {
			sb.WriteString(it.text)
			sb.WriteString("\n")
			if len(it.defines) == 1 && strings.HasPrefix(it.defines[0], "lit") && strings.HasPrefix(it.text, "(declare-const lit") {
				lits = append(lits, it.defines[0])
			}
		}
	}
	// string literals are pairwise different by construction (one constant per distinct text, none empty)
	if len(lits) >= 1 {
		sb.WriteString("(assert (distinct sempty " + strings.Join(lits, " ") + "))\n")
	}
	return sb.String()
}
