package main

import (
	"fmt"
	"go/token"
	"go/types"
	"sort"
	"strings"

	"golang.org/x/tools/go/ssa"
)

func (x *Exec) doCall(st *State, c *ssa.CallCommon, pos token.Pos) []Outcome {
	var args []Val
	for _, a := range c.Args {
		args = append(args, x.eval(st, a))
	}
	if c.IsInvoke() {
		recv := x.term(st, x.eval(st, c.Value), pos)
		return x.invoke(st, c, recv, args, pos)
	}
	if b, ok := c.Value.(*ssa.Builtin); ok {
		return x.builtin(st, b, c, args, pos)
	}
	fv := x.eval(st, c.Value)
	if x.isNoReturn(c.Value) {
		return x.noreturnCall(st, fv, args, pos)
	}
	if arrs, mname, mpkg := x.mutatorInfo(c.Value); arrs != nil {
		defer func() {}()
		outs := x.mutatorCall(st, fv, args, c, pos, arrs, mname, mpkg)
		return outs
	}
	if arrs := x.mutatorArrays(c.Value); false && arrs != nil {
		// user code that may reconfigure the library's objects through the public API: those arrays are havocked
		x.trusted["A-cb-init: a CmdInitializer reconfigures commands only through the public API (modelled as an arbitrary change of the declared heap arrays)"] = true
		for _, n := range arrs {
			for _, hn := range x.reg.HeapNames() {
				if hn == n || (strings.HasSuffix(n, "*") && strings.HasPrefix(hn, strings.TrimSuffix(n, "*"))) {
					x.heapHavoc(st, hn, true, st.allocCtr)
				}
			}
		}
	}
	return x.callVal(st, fv, args, c, pos)
}

// mutatorCall: user code that may reconfigure the library's objects through the public API. The declared heap arrays are
// havocked; afterwards the data-structure invariant written as the contract `callback:<Struct.Field>` is assumed.
func (x *Exec) mutatorCall(st *State, fv Val, args []Val, c *ssa.CallCommon, pos token.Pos, arrs []string, mname, mpkg string) []Outcome {
	x.trusted["A-cb-init: a CmdInitializer reconfigures commands only through the public API (modelled as an arbitrary change of the declared heap arrays that re-establishes the invariant callback:"+mname+")"] = true
	for _, n := range arrs {
		for _, hn := range x.reg.HeapNames() {
			if hn == n || (strings.HasSuffix(n, "*") && strings.HasPrefix(hn, strings.TrimSuffix(n, "*"))) {
				x.heapHavoc(st, hn, true, st.allocCtr)
			}
		}
	}
	outs := x.callVal(st, fv, args, c, pos)
	con := x.cs.Funcs[mpkg+"::callback:"+mname]
	if con == nil {
		return outs
	}
	for _, o := range outs {
		if o.panicked || o.exited {
			continue
		}
		pc := x.newSpecCtx(o.st, nil, nil)
		pc.pkgPath = mpkg
		for i, n := range con.ParamNames {
			if i < len(args) {
				t := x.term(o.st, args[i], pos)
				if t.T == nil && i < len(c.Args) {
					t = mkT(t.Sort, t.S, c.Args[i].Type())
				}
				pc.vars[n] = t
			}
		}
		for _, e := range con.Ensures {
			pc.clause = "callback:" + mname + "/" + e.Name
			o.st.Assume(pc.boolExpr(e.E, false))
		}
	}
	return outs
}

func (x *Exec) mutatorInfo(v ssa.Value) ([]string, string, string) {
	arrs := x.mutatorArrays(v)
	if arrs == nil {
		return nil, "", ""
	}
	u := v.(*ssa.UnOp)
	a := u.X.(*ssa.FieldAddr)
	named := a.X.Type().Underlying().(*types.Pointer).Elem().(*types.Named)
	st := named.Underlying().(*types.Struct)
	return arrs, named.Obj().Name() + "." + st.Field(a.Field).Name(), named.Obj().Pkg().Path()
}

func (x *Exec) mutatorArrays(v ssa.Value) []string {
	u, ok := v.(*ssa.UnOp)
	if !ok || u.Op != token.MUL {
		return nil
	}
	a, ok := u.X.(*ssa.FieldAddr)
	if !ok {
		return nil
	}
	pt, ok := a.X.Type().Underlying().(*types.Pointer)
	if !ok {
		return nil
	}
	named, ok := pt.Elem().(*types.Named)
	if !ok {
		return nil
	}
	st, ok := named.Underlying().(*types.Struct)
	if !ok {
		return nil
	}
	fname := named.Obj().Name() + "." + st.Field(a.Field).Name()
	for _, m := range x.cs.Mutators {
		if m.Name == fname && named.Obj().Pkg().Path() == m.PkgPath {
			return m.Arrays
		}
	}
	return nil
}

// isNoReturn: the callee is loaded from a package variable or struct field declared `noreturn` (the process-exit indirection)
func (x *Exec) isNoReturn(v ssa.Value) bool {
	u, ok := v.(*ssa.UnOp)
	if !ok || u.Op != token.MUL {
		return false
	}
	switch a := u.X.(type) {
	case *ssa.Global:
		for _, nr := range x.cs.NoReturns {
			if nr.Kind == "var" && nr.Name == a.Name() && a.Pkg.Pkg.Path() == nr.PkgPath {
				return true
			}
		}
	case *ssa.FieldAddr:
		pt, ok := a.X.Type().Underlying().(*types.Pointer)
		if !ok {
			return false
		}
		named, ok := pt.Elem().(*types.Named)
		if !ok {
			return false
		}
		st, ok := named.Underlying().(*types.Struct)
		if !ok {
			return false
		}
		fname := named.Obj().Name() + "." + st.Field(a.Field).Name()
		for _, nr := range x.cs.NoReturns {
			if nr.Kind == "field" && nr.Name == fname && named.Obj().Pkg().Path() == nr.PkgPath {
				return true
			}
		}
	}
	return false
}

func (x *Exec) noreturnCall(st *State, fv Val, args []Val, pos token.Pos) []Outcome {
	x.trusted["A-exit: the process-exit function (cli.exiter / Step.Exiter) does not return"] = true
	ft := x.term(st, fv, pos)
	x.oblige(st, "safety", "nil-func-call", Not(Eq(ft, IntLit(0))), pos)
	code := IntLit(0)
	if len(args) > 0 {
		code = x.term(st, args[0], pos)
	}
	x.emit(st, evExit, code, IntLit(0), mk("Str", "sempty"))
	st.Note("exit")
	return []Outcome{{st: st, exited: true}}
}

func (x *Exec) callVal(st *State, fv Val, args []Val, c *ssa.CallCommon, pos token.Pos) []Outcome {
	switch fv := fv.(type) {
	case *FuncRef:
		return x.callFunc(st, fv.Fn, args, nil, pos)
	case *Closure:
		return x.callFunc(st, fv.Fn, args, fv.Bind, pos)
	case *Term:
		// known function constants
		if cl, ok := st.closures[fv.S]; ok {
			return x.callFunc(st, cl.Fn, args, cl.Bind, pos)
		}
		for id, fn := range x.funcById {
			if fv.S == IntLit(int64(id)).S {
				return x.callFunc(st, fn, args, nil, pos)
			}
		}
		return x.callback(st, fv, args, pos)
	}
	x.unsupported(st, pos, "call of %T", fv)
	return nil
}

func (x *Exec) callFunc(st *State, fn *ssa.Function, args []Val, bind []Val, pos token.Pos) []Outcome {
	// a method value `recv.m` held in a local: the synthetic wrapper calls the method on the captured receiver
	if fn.Synthetic != "" && strings.HasSuffix(fn.Name(), "$bound") && len(bind) == 1 {
		if m, ok := fn.Object().(*types.Func); ok {
			if sig, ok := m.Type().(*types.Signature); ok && sig.Recv() != nil && !types.IsInterface(sig.Recv().Type()) {
				if target := x.prog.FuncValue(m); target != nil {
					return x.callFunc(st, target, append([]Val{bind[0]}, args...), nil, pos)
				}
			}
		}
	}
	if outs, ok := x.externCall(st, fn, args, pos); ok {
		return outs
	}
	con := x.contractOf(fn)
	if con != nil && !con.Inline {
		return x.callContract(st, fn, con, args, pos, nil)
	}
	if !x.isRepoFunc(fn) {
		x.unsupported(st, pos, "call to external function %s without a model", fn.String())
	}
	// inline
	if fn.Blocks == nil {
		x.unsupported(st, pos, "no body for %s", fn.String())
	}
	for _, f := range st.frames {
		if f.fn == fn {
			x.unsupported(st, pos, "recursive call to %s needs a contract", fn.String())
		}
	}
	st.Note("inline " + fn.Name())
	x.callPos = pos
	return x.execFunction(st, fn, args, bind, false)
}

// callback: a call through an unknown function value (user code). It may return or panic with any non-nil value,
// appends one event to the trace and does not touch library objects (assumption A-cb).
func (x *Exec) callback(st *State, fv *Term, args []Val, pos token.Pos) []Outcome {
	x.trusted["A-cb: user callbacks (func values, flag.Value methods) do not modify library objects"] = true
	x.oblige(st, "safety", "nil-func-call", Not(Eq(fv, IntLit(0))), pos)
	var sig *types.Signature
	if fv.T != nil {
		sig, _ = fv.T.Underlying().(*types.Signature)
	}
	var argT []*Term
	for _, a := range args {
		argT = append(argT, x.term(st, a, pos))
	}
	a0 := IntLit(0)
	if len(argT) > 0 && argT[0].Sort == "Int" {
		a0 = argT[0]
	}
	x.reg.SeqSort("Ev")
	x.reg.DeclFunc("cbReturns", []string{"Int", "Int"}, "Bool")
	x.reg.DeclFunc("cbPanicVal", []string{"Int", "Int"}, "Iface")
	x.reg.Axiom("(assert (forall ((f Int) (n Int)) (! (not (= (itag (cbPanicVal f n)) 0)) :pattern ((cbPanicVal f n)))))")
	at := App("Int", "len_Ev", st.trace)
	returns := App("Bool", "cbReturns", fv, at)
	pval := App("Iface", "cbPanicVal", fv, at)
	x.emit(st, evCall, fv, a0, mk("Str", "sempty"))
	// normal return
	st2 := st.Clone()
	st.Assume(returns)
	st2.Assume(Not(returns))
	var rs []Val
	if sig != nil {
		for i := 0; i < sig.Results().Len(); i++ {
			rt := sig.Results().At(i).Type()
			r := st.Fresh("cbres", x.reg.SortOf(rt))
			r.T = rt
			x.assumeWF(st, r)
			rs = append(rs, r)
		}
	}
	st.Note("callback returns")
	// the callback may itself allocate
	na := st.Fresh("alloc", "Int")
	st.Assume(Le(st.allocCtr, na))
	st.allocCtr = na
	outs := []Outcome{{st: st, results: rs}}
	// panic
	pv := pval
	st2.Assume(Not(Eq(App("Int", "itag", pv), IntLit(0))))
	st2.panicking = pv
	st2.ownPanic = false
	st2.Note("callback panics")
	outs = append(outs, Outcome{st: st2, panicked: true})
	return outs
}

const (
	evCall  = 1 // a = function value, b = first argument
	evExit  = 2 // a = exit code
	evOut   = 3 // a = writer, s = text
	evEnv   = 4
	evSet   = 5 // a = ival(value), b = itag(value), s = the string passed to Set
	evClear = 6
	evMeth  = 7 // any other logged interface method
	evMark  = 8 // ghost marker: a logged library function was entered (s = its name, a/b = first arguments)
)

func (x *Exec) assumedPre(name string) bool {
	for _, p := range x.curAssumePre {
		if p == name {
			return true
		}
	}
	return false
}

func (x *Exec) emit(st *State, kind int, a, b, s *Term) {
	x.reg.SeqSort("Ev")
	ev := App("Ev", "ev", IntLit(int64(kind)), a, b, s)
	st.trace = App("Seq_Ev", "cat_Ev", st.trace, App("Seq_Ev", "one_Ev", ev))
}

// ---------------------------------------------------------------------------
// calls against a contract

func (x *Exec) callContract(st *State, fn *ssa.Function, con *Contract, args []Val, pos token.Pos, recvIface *Term) []Outcome {
	key := funcKey(fn)
	var argT []*Term
	for _, a := range args {
		argT = append(argT, x.term(st, a, pos))
	}
	ctx := x.newSpecCtx(st, nil, fn)
	ctx.callSite = true
	ctx.bindParams(fn, argT)
	if recvIface != nil {
		ctx.vars["this"] = recvIface
	}
	ctx.evalLets(con)
	for _, r := range con.Requires {
		if x.assumedPre(key + "/" + r.Name) {
			st.Assume(ctx.boolExpr(r.E, false))
			x.trusted["assumed at call sites in "+x.curFn+": precondition "+key+"/"+r.Name+" (A-heapwf)"] = true
			continue
		}
		g := ctx.boolExpr(r.E, true)
		n := len(x.obls)
		x.obligeSrc(st, "pre", key+"/"+r.Name, g, pos, r.Src)
		if len(x.obls) > n {
			x.obls[len(x.obls)-1].Callee = key
		}
	}
	var markPos *Term
	if con.Logged {
		// marker event: this function was called (a = first argument, b = second argument when it is an int or bool)
		markPos = App("Int", "len_Ev", st.trace)
		a, b := IntLit(0), IntLit(0)
		if len(argT) > 0 && argT[0].Sort == "Int" {
			a = argT[0]
		}
		if len(argT) > 1 {
			if argT[1].Sort == "Int" {
				b = argT[1]
			} else if argT[1].Sort == "Bool" {
				b = Ite(argT[1], IntLit(1), IntLit(0))
			} else if argT[1].Sort == "Seq_Str" {
				// an argument vector is recorded by name (argsId is a function: equal vectors have equal names)
				x.reg.DeclFunc("argsId", []string{"Seq_Str"}, "Int")
				b = App("Int", "argsId", argT[1])
			}
		}
		x.emit(st, evMark, a, b, x.reg.StrLit(fn.Name()))
	}
	// recursion measure: callee's measure at the call must be lexicographically below the caller's measure at its entry
	if len(con.Decr) > 0 && len(x.curDecr) > 0 {
		var now []*Term
		for _, d := range con.Decr {
			ctx.clause = key + "/decreases"
			now = append(now, ctx.intExpr(d.E))
		}
		n := len(now)
		if len(x.curDecr) < n {
			n = len(x.curDecr)
		}
		x.obligeSrc(st, "decreases", "call/"+key, lexLess(now[:n], x.curDecr[:n]), pos, con.Decr[0].Src)
	}
	// snapshot
	oldHeap := map[string]*Term{}
	for k, v := range st.heap {
		oldHeap[k] = v
	}
	preMod := map[string]bool{}
	for k, v := range st.fullMod {
		preMod[k] = v
	}
	oldTrace := st.trace
	oldAlloc := st.allocCtr
	effFn := x.effectsOf(fn)
	for _, n := range sortedEffKeys(effFn) {
		full := effFn[n]
		if n == "$trace" {
			x.havocTrace(st)
		} else if n == "$slice" {
			x.unsupported(st, pos, "callee %s writes slice elements in place", key)
		} else {
			x.heapHavoc(st, n, full, oldAlloc)
		}
	}
	na := st.Fresh("alloc", "Int")
	st.Assume(Le(st.allocCtr, na))
	st.allocCtr = na
	st.Note("call " + key)

	mkPost := func(s *State, clauses []Clause, results []*Term, pv *Term) {
		pc := x.newSpecCtx(s, nil, fn)
		pc.callSite = true
		pc.preMod = preMod
		pc.bindParams(fn, argT)
		if recvIface != nil {
			pc.vars["this"] = recvIface
		}
		pc.oldHeap = oldHeap
		pc.oldTrace = oldTrace
		pc.oldAlloc = oldAlloc
		pc.hasOld = true
		pc.bindResults(fn, results)
		if pv != nil {
			pc.vars["panicval"] = pv
			// whether the callee raised the value itself is not known to the caller
			op := s.Fresh("ownPanic", "Bool")
			op.T = types.Typ[types.Bool]
			pc.vars["$ownPanic"] = op
		}
		pc.evalLetsOld(con)
		for _, e := range clauses {
			s.Assume(pc.boolExpr(e.E, false))
		}
	}

	var outs []Outcome
	var stP, stE *State
	if con.MayPanic {
		stP = st.Clone()
	}
	if con.MayExit {
		stE = st.Clone()
	}
	var results []*Term
	var rvals []Val
	sig := fn.Signature
	for i := 0; i < sig.Results().Len(); i++ {
		rt := sig.Results().At(i).Type()
		r := st.Fresh("res_"+fn.Name(), x.reg.SortOf(rt))
		r.T = rt
		x.assumeWF(st, r)
		results = append(results, r)
		rvals = append(rvals, r)
	}
	mkPost(st, con.Ensures, results, nil)
	if con.Logged && markPos != nil {
		// ... and so is the length of the trace when it returns
		x.reg.DeclFunc("callEnd", []string{"Str", "Int"}, "Int")
		st.Assume(Eq(App("Int", "len_Ev", st.trace), App("Int", "callEnd", x.reg.StrLit(fn.Name()), markPos)))
	}
	if con.Logged && len(results) == 1 && results[0].Sort == "Iface" && markPos != nil {
		// the verdict of a logged function that yields an error is named by the position of its entry marker
		x.reg.DeclFunc("callOK", []string{"Str", "Int"}, "Bool")
		st.Assume(Eq(Eq(results[0], mk("Iface", "inil")), App("Bool", "callOK", x.reg.StrLit(fn.Name()), markPos)))
	}
	outs = append(outs, Outcome{st: st, results: rvals})
	if stP != nil {
		pv := stP.Fresh("panicval", "Iface")
		stP.Assume(Not(Eq(App("Int", "itag", pv), IntLit(0))))
		mkPost(stP, con.Panics, nil, pv)
		stP.panicking = pv
		stP.ownPanic = false
		stP.Note("callee " + key + " panics")
		outs = append(outs, Outcome{st: stP, panicked: true})
	}
	if stE != nil {
		mkPost(stE, con.Exits, nil, nil)
		stE.Note("callee " + key + " exits")
		outs = append(outs, Outcome{st: stE, exited: true})
	}
	return outs
}

// ---------------------------------------------------------------------------
// interface method calls

func (x *Exec) invoke(st *State, c *ssa.CallCommon, recv *Term, args []Val, pos token.Pos) []Outcome {
	x.oblige(st, "safety", "nil-interface-call", Not(Eq(App("Int", "itag", recv), IntLit(0))), pos)
	named, _ := c.Value.Type().(*types.Named)
	// a method promoted from an embedded interface is specified where it is declared (MultiValued.Set is flag.Value.Set)
	if sig, ok := c.Method.Type().(*types.Signature); ok && sig.Recv() != nil {
		if dn, ok := sig.Recv().Type().(*types.Named); ok {
			named = dn
		}
	}
	iname := shortTypeName(c.Value.Type())
	if named != nil {
		iname = named.Obj().Name()
	}
	// interface contract declared in the repo?
	if named != nil && named.Obj().Pkg() != nil {
		k := named.Obj().Pkg().Path() + "::" + iname + "." + c.Method.Name()
		if con := x.cs.Funcs[k]; con != nil {
			return x.invokeContract(st, c, con, recv, args, pos)
		}
	}
	if outs, ok := x.externInvoke(st, c, iname, recv, args, pos); ok {
		return outs
	}
	x.unsupported(st, pos, "invoke %s.%s without an interface contract", iname, c.Method.Name())
	return nil
}

// invokeContract: like callContract but the callee is known only by its interface method.
func (x *Exec) invokeContract(st *State, c *ssa.CallCommon, con *Contract, recv *Term, args []Val, pos token.Pos) []Outcome {
	// a representative function gives parameter names and the signature: the interface method itself
	fn := x.ifaceMethodStub(c)
	for i, n := range con.ParamNames {
		if i < len(fn.params) {
			fn.params[i] = n
		}
	}
	return x.callContractSig(st, con, fn, recv, args, pos, c)
}

type methodStub struct {
	name   string
	sig    *types.Signature
	params []string
}

func (x *Exec) ifaceMethodStub(c *ssa.CallCommon) *methodStub {
	sig := c.Method.Type().(*types.Signature)
	ms := &methodStub{name: c.Method.Name(), sig: sig}
	for i := 0; i < sig.Params().Len(); i++ {
		n := sig.Params().At(i).Name()
		if n == "" {
			n = fmt.Sprintf("p%d", i)
		}
		ms.params = append(ms.params, n)
	}
	return ms
}

func (x *Exec) callContractSig(st *State, con *Contract, ms *methodStub, recv *Term, args []Val, pos token.Pos, c *ssa.CallCommon) []Outcome {
	key := con.Key
	var argT []*Term
	for _, a := range args {
		argT = append(argT, x.term(st, a, pos))
	}
	bindAll := func(pc *SpecCtx) {
		pc.vars["this"] = recv
		for i, n := range ms.params {
			pc.vars[n] = argT[i]
		}
	}
	specPkg := con.PkgPath
	if con.SpecPkg != "" {
		specPkg = con.SpecPkg
	}
	ctx := x.newSpecCtx(st, nil, nil)
	ctx.callSite = true
	ctx.pkgPath = specPkg
	bindAll(ctx)
	ctx.evalLets(con)
	preMod := map[string]bool{}
	for k, v := range st.fullMod {
		preMod[k] = v
	}
	for _, r := range con.Requires {
		g := ctx.boolExpr(r.E, true)
		n := len(x.obls)
		x.obligeSrc(st, "pre", key+"/"+r.Name, g, pos, r.Src)
		if len(x.obls) > n {
			x.obls[len(x.obls)-1].Callee = key
		}
	}
	oldHeap := map[string]*Term{}
	for k, v := range st.heap {
		oldHeap[k] = v
	}
	oldTrace := st.trace
	oldAlloc := st.allocCtr
	eff := map[string]bool{}
	for _, impl := range x.implementers(c) {
		for n, full := range x.effectsOf(impl) {
			mergeEff(eff, n, full)
		}
	}
	for _, m := range con.Modifies {
		eff[m] = true
	}
	for _, n := range sortedEffKeys(eff) {
		full := eff[n]
		if n == "$trace" {
			// user implementations cannot emit library events: the trace only gains this call's own logged event (A-cb)
			x.trusted["A-cb: a protocol method of a user value does not call back into the library (its only trace effect is its own logged event)"] = true
		} else if n == "$slice" {
			x.unsupported(st, pos, "implementation of %s writes slice elements in place", key)
		} else {
			x.heapHavoc(st, n, full, oldAlloc)
		}
	}
	na := st.Fresh("alloc", "Int")
	st.Assume(Le(st.allocCtr, na))
	st.allocCtr = na
	st.Note("invoke " + key)
	var stP, stE *State
	if con.MayPanic {
		stP = st.Clone()
	}
	if con.MayExit {
		stE = st.Clone()
	}
	post := func(s *State, clauses []Clause, results []*Term, pv *Term) {
		pc := x.newSpecCtx(s, nil, nil)
		pc.callSite = true
		pc.preMod = preMod
		pc.pkgPath = specPkg
		bindAll(pc)
		pc.oldHeap, pc.oldTrace, pc.oldAlloc, pc.hasOld = oldHeap, oldTrace, oldAlloc, true
		for i, r := range results {
			n := ms.sig.Results().At(i).Name()
			if n != "" {
				pc.vars[n] = r
			}
			pc.vars[fmt.Sprintf("result%d", i)] = r
			if i == 0 {
				pc.vars["result"] = r
			}
		}
		if pv != nil {
			pc.vars["panicval"] = pv
			// whether the callee raised the value itself is not known to the caller
			op := s.Fresh("ownPanic", "Bool")
			op.T = types.Typ[types.Bool]
			pc.vars["$ownPanic"] = op
		}
		pc.evalLetsOld(con)
		for _, e := range clauses {
			s.Assume(pc.boolExpr(e.E, false))
		}
	}
	var results []*Term
	var rvals []Val
	for i := 0; i < ms.sig.Results().Len(); i++ {
		rt := ms.sig.Results().At(i).Type()
		r := st.Fresh("res_"+ms.name, x.reg.SortOf(rt))
		r.T = rt
		x.assumeWF(st, r)
		results = append(results, r)
		rvals = append(rvals, r)
	}
	logEvent := func(s *State, okT *Term) {
		if !con.Logged {
			return
		}
		kind := evMeth
		sarg := mk("Str", "sempty")
		switch ms.name {
		case "Set":
			kind = evSet
			if len(argT) > 0 && argT[0].Sort == "Str" {
				sarg = argT[0]
			}
		case "Clear":
			kind = evClear
		default:
			sarg = x.reg.StrLit(ms.name)
		}
		x.emit(s, kind, App("Int", "ival", recv), okT, sarg)
	}
	okT := IntLit(1)
	if ms.name == "Set" && len(results) == 1 && results[0].Sort == "Iface" {
		okT = Ite(Eq(results[0], mk("Iface", "inil")), IntLit(1), IntLit(0))
	}
	logEvent(st, okT)
	post(st, con.Ensures, results, nil)
	outs := []Outcome{{st: st, results: rvals}}
	if stP != nil {
		pv := stP.Fresh("panicval", "Iface")
		stP.Assume(Not(Eq(App("Int", "itag", pv), IntLit(0))))
		logEvent(stP, IntLit(-1))
		post(stP, con.Panics, nil, pv)
		stP.panicking = pv
		stP.ownPanic = false
		outs = append(outs, Outcome{st: stP, panicked: true})
	}
	if stE != nil {
		post(stE, con.Exits, nil, nil)
		outs = append(outs, Outcome{st: stE, exited: true})
	}
	return outs
}

// ---------------------------------------------------------------------------
// builtins

func (x *Exec) builtin(st *State, b *ssa.Builtin, c *ssa.CallCommon, args []Val, pos token.Pos) []Outcome {
	one := func(v Val) []Outcome { return []Outcome{{st: st, results: []Val{v}}} }
	switch b.Name() {
	case "len":
		if o, ok := args[0].(*Owned); ok {
			return one(mkT("Int", o.n.S, types.Typ[types.Int]))
		}
		t := x.term(st, args[0], pos)
		switch {
		case t.Sort == "Str":
			return one(mkT("Int", App("Int", "slen", t).S, types.Typ[types.Int]))
		case isSeq(t.Sort):
			return one(mkT("Int", App("Int", "len_"+seqElem(t.Sort), t).S, types.Typ[types.Int]))
		}
		if mt, ok := c.Args[0].Type().Underlying().(*types.Map); ok {
			ks := x.reg.SortOf(mt.Key())
			dn, _ := x.reg.MapArrays(ks, x.reg.SortOf(mt.Elem()))
			card := App("Int", x.reg.MapCard(ks), sel(x.heapGet(st, dn), t, x.reg.heap[dn][1]))
			return one(mkT("Int", Ite(Eq(t, IntLit(0)), IntLit(0), card).S, types.Typ[types.Int]))
		}
		x.unsupported(st, pos, "len of %s", t.Sort)
	case "append":
		a := x.term(st, args[0], pos)
		bt := x.term(st, args[1], pos)
		if a.Sort != bt.Sort {
			x.unsupported(st, pos, "append %s to %s", bt.Sort, a.Sort)
		}
		e := seqElem(a.Sort)
		if st.views[a.S] {
			x.unsupported(st, pos, "append to a re-sliced view of a live slice (it may overwrite the original's elements: outside the immutable-sequence idealisation)")
		}
		x.trusted["A-seq: slices are immutable sequence values; append never aliases spare capacity"] = true
		return one(mkT(a.Sort, App(a.Sort, "cat_"+e, a, bt).S, c.Args[0].Type()))
	case "copy":
		dst, ok := args[0].(*Owned)
		if !ok {
			x.unsupported(st, pos, "copy into a slice not made in this function")
		}
		os := st.owned[dst.id]
		if os.frozen {
			x.unsupported(st, pos, "copy into a slice that has escaped")
		}
		if os.depth != x.loopDepth(st) {
			x.unsupported(st, pos, "copy into a fresh slice inside a loop")
		}
		var src *Term
		if so, ok := args[1].(*Owned); ok {
			src = x.ownedTerm(st, so)
		} else {
			src = x.term(st, args[1], pos)
		}
		e := seqElem(os.content.Sort)
		sl := App("Int", "len_"+e, src)
		n := Ite(Le(sl, dst.n), sl, dst.n)
		total := App("Int", "len_"+e, os.content)
		// content' = content[0:off] ++ src[0:n] ++ content[off+n:]
		nc := App(os.content.Sort, "cat_"+e,
			App(os.content.Sort, "cat_"+e, App(os.content.Sort, "sub_"+e, os.content, IntLit(0), dst.off), App(os.content.Sort, "sub_"+e, src, IntLit(0), n)),
			App(os.content.Sort, "sub_"+e, os.content, Add(dst.off, n), total))
		os.content = nc
		return one(mkT("Int", n.S, types.Typ[types.Int]))
	case "recover":
		if st.panicking != nil && st.inDefer > 0 {
			v := st.panicking
			st.panicking = nil
			return one(mkT("Iface", v.S, c.Signature().Results().At(0).Type()))
		}
		return one(mk("Iface", "inil"))
	case "ssa:wrapnilchk":
		return one(args[0])
	case "ssa:deferstack":
		return one(IntLit(0))
	case "print", "println":
		return []Outcome{{st: st}}
	case "delete":
		m := x.term(st, args[0], pos)
		k := x.term(st, args[1], pos)
		mt := c.Args[0].Type().Underlying().(*types.Map)
		dn, _ := x.reg.MapArrays(x.reg.SortOf(mt.Key()), x.reg.SortOf(mt.Elem()))
		ds := x.reg.heap[dn][1]
		d := x.heapGet(st, dn)
		x.heapStoreAt(st, dn, m, sto(sel(d, m, ds), k, tFalse))
		return []Outcome{{st: st}}
	}
	x.unsupported(st, pos, "builtin %s", b.Name())
	return nil
}

func isStdlib(fn *ssa.Function) bool {
	return fn.Pkg != nil && !strings.Contains(fn.Pkg.Pkg.Path(), ".")
}

func sortedEffKeys(m map[string]bool) []string {
	var ks []string
	for k := range m {
		ks = append(ks, k)
	}
	sort.Strings(ks)
	return ks
}
