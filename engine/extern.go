package main

// Assumed contracts of functions outside the repository (the trusted base).
// Every model used is recorded in x.trusted and printed in the evidence.

import (
	"fmt"
	"go/token"
	"go/types"
	"strings"

	"golang.org/x/tools/go/ssa"
)

func (x *Exec) externCall(st *State, fn *ssa.Function, args []Val, pos token.Pos) ([]Outcome, bool) {
	if x.isRepoFunc(fn) {
		return nil, false
	}
	name := fn.String()
	one := func(v Val) ([]Outcome, bool) { return []Outcome{{st: st, results: []Val{v}}}, true }
	T := func(i int) *Term { return x.term(st, args[i], pos) }
	use := func(s string) { x.trusted["extern "+s] = true }
	r := x.reg
	switch name {
	case "strings.HasPrefix":
		use("strings.HasPrefix(s,p) <=> p is a byte prefix of s")
		return one(mkT("Bool", x.hasPrefix(T(0), T(1), nil).S, types.Typ[types.Bool]))
	case "strings.TrimPrefix":
		use("strings.TrimPrefix(s,p) = s[len(p):] if HasPrefix(s,p) else s")
		s, p := T(0), T(1)
		hp := x.hasPrefix(s, p, nil)
		return one(mkT("Str", Ite(hp, App("Str", "ssub", s, App("Int", "slen", p), App("Int", "slen", s)), s).S, types.Typ[types.String]))
	case "strings.SplitN":
		s, sep, n := T(0), T(1), T(2)
		lit, ok := x.litOf(sep)
		if !ok || len(lit) != 1 || n.S != "2" {
			x.unsupported(st, pos, "strings.SplitN only modelled for a one-byte literal separator and n=2")
		}
		use("strings.SplitN(s,c,2) splits at the first occurrence of byte c")
		x.declIdxByte()
		i := App("Int", "idx_byte", s, IntLit(int64(lit[0])))
		ss := r.SeqSort("Str")
		res := st.Fresh("splitn", ss)
		res.T = types.NewSlice(types.Typ[types.String])
		ln := App("Int", "len_Str", res)
		at := func(k int64) *Term { return App("Str", "at_Str", res, IntLit(k)) }
		st.Assume(Implies(Lt(i, IntLit(0)), And(Eq(ln, IntLit(1)), Eq(at(0), s))))
		st.Assume(Implies(Le(IntLit(0), i), And(Eq(ln, IntLit(2)),
			Eq(at(0), App("Str", "ssub", s, IntLit(0), i)),
			Eq(at(1), App("Str", "ssub", s, Add(i, IntLit(1)), App("Int", "slen", s))))))
		return one(res)
	case "strings.IndexByte":
		use("strings.IndexByte(s,c) = idx_byte(s,c): the first position of byte c, or -1")
		x.declIdxByte()
		return one(mkT("Int", App("Int", "idx_byte", T(0), T(1)).S, types.Typ[types.Int]))
	case "strings.Split":
		use("strings.Split: uninterpreted function strings_Split(s,sep), result non-empty when sep is non-empty")
		r.SeqSort("Str")
		r.DeclFunc("strings_Split", []string{"Str", "Str"}, "Seq_Str")
		res := App("Seq_Str", "strings_Split", T(0), T(1))
		st.Assume(Implies(Lt(IntLit(0), App("Int", "slen", T(1))), Le(IntLit(1), App("Int", "len_Str", res))))
		return one(mkT("Seq_Str", res.S, types.NewSlice(types.Typ[types.String])))
	case "strings.Fields":
		use("strings.Fields: uninterpreted function strings_Fields(s); fields are non-empty")
		r.SeqSort("Str")
		r.DeclFunc("strings_Fields", []string{"Str"}, "Seq_Str")
		r.Axiom("(assert (forall ((s Str) (i Int)) (! (=> (and (<= 0 i) (< i (len_Str (strings_Fields s)))) (> (slen (at_Str (strings_Fields s) i)) 0)) :pattern ((at_Str (strings_Fields s) i)))))")
		r.Axiom("(assert (= (len_Str (strings_Fields sempty)) 0))")
		fv := App("Seq_Str", "strings_Fields", T(0))
		x.ownedCtr++
		st.owned[x.ownedCtr] = &OwnedState{content: fv, depth: x.loopDepth(st)}
		return one(&Owned{id: x.ownedCtr, off: IntLit(0), n: App("Int", "len_Str", fv), T: types.NewSlice(types.Typ[types.String])})
	case "strings.Map", "strings.FieldsFunc", "strings.TrimFunc", "strings.IndexFunc":
		// a higher-order helper applied to a capture-free function literal: the literal can only compute on its argument,
		// so the call is a (left unspecified) value of its result type and has no effect
		pure := false
		fi := 0
		if name != "strings.Map" {
			fi = 1
		}
		switch f := args[fi].(type) {
		case *FuncRef:
			pure = len(f.Fn.FreeVars) == 0 && x.effectFree(f.Fn)
		case *Closure:
			pure = len(f.Bind) == 0 && x.effectFree(f.Fn)
		case *Term:
			if cl, ok := st.closures[f.S]; ok {
				pure = len(cl.Bind) == 0 && x.effectFree(cl.Fn)
			}
			for id, g := range x.funcById {
				if f.S == IntLit(int64(id)).S {
					pure = len(g.FreeVars) == 0 && x.effectFree(g)
				}
			}
		}
		if !pure {
			x.unsupported(st, pos, "%s with a function that captures variables or has effects", name)
		}
		use(name + " applied to a capture-free, effect-free literal: an unspecified value of the result type")
		rt := fn.Signature.Results().At(0).Type()
		res := st.Fresh("hof", r.SortOf(rt))
		res.T = rt
		return one(res)
	case "strings.TrimSpace":
		use("strings.TrimSpace: uninterpreted function strings_TrimSpace(s), no longer than s")
		r.DeclFunc("strings_TrimSpace", []string{"Str"}, "Str")
		r.Axiom("(assert (forall ((s Str)) (! (<= (slen (strings_TrimSpace s)) (slen s)) :pattern ((strings_TrimSpace s)))))")
		return one(mkT("Str", App("Str", "strings_TrimSpace", T(0)).S, types.Typ[types.String]))
	case "strings.Join":
		use("strings.Join: uninterpreted function strings_Join(xs,sep)")
		r.SeqSort("Str")
		r.DeclFunc("strings_Join", []string{"Seq_Str", "Str"}, "Str")
		return one(mkT("Str", App("Str", "strings_Join", T(0), T(1)).S, types.Typ[types.String]))
	case "strconv.ParseBool":
		use("strconv.ParseBool: uninterpreted pair (ParseBool_ok, ParseBool_val); err == nil <=> ok")
		r.DeclFunc("ParseBool_ok", []string{"Str"}, "Bool")
		r.DeclFunc("ParseBool_val", []string{"Str"}, "Bool")
		okT := App("Bool", "ParseBool_ok", T(0))
		return []Outcome{{st: st, results: []Val{
			mkT("Bool", Ite(okT, App("Bool", "ParseBool_val", T(0)), tFalse).S, types.Typ[types.Bool]),
			x.errFrom(st, okT, "strconv.ParseBool", T(0))}}}, true
	case "strconv.ParseInt":
		use("strconv.ParseInt: uninterpreted pair (ParseInt_ok, ParseInt_val) of (s, base, bitSize); err == nil <=> ok")
		r.DeclFunc("ParseInt_ok", []string{"Str", "Int", "Int"}, "Bool")
		r.DeclFunc("ParseInt_val", []string{"Str", "Int", "Int"}, "Int")
		okT := App("Bool", "ParseInt_ok", T(0), T(1), T(2))
		return []Outcome{{st: st, results: []Val{
			mkT("Int", App("Int", "ParseInt_val", T(0), T(1), T(2)).S, types.Typ[types.Int64]),
			x.errFrom(st, okT, "strconv.ParseInt", T(0))}}}, true
	case "strconv.ParseFloat":
		use("strconv.ParseFloat: uninterpreted pair (ParseFloat_ok, ParseFloat_val) of (s, bitSize); err == nil <=> ok")
		r.DeclFunc("ParseFloat_ok", []string{"Str", "Int"}, "Bool")
		r.DeclFunc("ParseFloat_val", []string{"Str", "Int"}, "F64")
		okT := App("Bool", "ParseFloat_ok", T(0), T(1))
		return []Outcome{{st: st, results: []Val{
			mkT("F64", App("F64", "ParseFloat_val", T(0), T(1)).S, types.Typ[types.Float64]),
			x.errFrom(st, okT, "strconv.ParseFloat", T(0))}}}, true
	case "os.Getenv":
		use("os.Getenv(k) = env(k), a fixed function during one check")
		r.DeclFunc("env", []string{"Str"}, "Str")
		x.emit(st, evEnv, IntLit(0), IntLit(0), T(0))
		return one(mkT("Str", App("Str", "env", T(0)).S, types.Typ[types.String]))
	case "fmt.Sprintf":
		use("fmt.Sprintf: uninterpreted function fmt_sprintf(format, args)")
		return one(mkT("Str", x.sprintf(T(0), T(1)).S, types.Typ[types.String]))
	case "fmt.Errorf":
		use("fmt.Errorf: returns a non-nil error whose identity is a function of the formatted text")
		msg := x.sprintf(T(0), T(1))
		return one(x.newError(st, msg))
	case "errors.New":
		use("errors.New: returns a fresh non-nil error")
		return one(x.newError(st, T(0)))
	case "fmt.Fprintf":
		use("fmt.Fprintf(w, f, a...): appends Out(w, fmt_sprintf(f,a)) to the trace")
		x.emit(st, evOut, x.writerId(T(0)), IntLit(0), x.sprintf(T(1), T(2)))
		return x.ioResult(st), true
	case "fmt.Fprint":
		use("fmt.Fprint(w, a...): appends Out(w, fmt_sprint(a)) to the trace")
		x.emit(st, evOut, x.writerId(T(0)), IntLit(0), x.sprint(T(1), false))
		return x.ioResult(st), true
	case "fmt.Fprintln":
		use("fmt.Fprintln(w, a...): appends Out(w, fmt_sprintln(a)) to the trace")
		x.emit(st, evOut, x.writerId(T(0)), IntLit(0), x.sprint(T(1), true))
		return x.ioResult(st), true
	case "text/tabwriter.NewWriter":
		use("tabwriter.NewWriter(w,...): a fresh writer tw with tabw_under(tw) = w; layout is not modelled")
		ref := x.newRef(st, "tabwriter")
		r.DeclFunc("tabw_under", []string{"Int"}, "Int")
		st.Assume(Eq(App("Int", "tabw_under", ref), x.writerId(T(0))))
		return one(mkT("Int", ref.S, fn.Signature.Results().At(0).Type()))
	case "(*text/tabwriter.Writer).Flush":
		use("(*tabwriter.Writer).Flush: appends Out(tw, \"<flush>\") to the trace")
		x.emit(st, evOut, T(0), IntLit(1), mk("Str", "sempty"))
		return one(mk("Iface", "inil"))
	case "os.Exit":
		use("os.Exit does not return")
		x.emit(st, evExit, T(0), IntLit(0), mk("Str", "sempty"))
		st.Note("exit")
		return []Outcome{{st: st, exited: true}}, true
	}
	// generic fallback: a pure function of package strings / strconv / unicode over basic values (string, int, bool,
	// byte, rune, []string) with one such result is an uninterpreted function of its arguments
	if pk := fn.Pkg; pk != nil && fn.Signature.Recv() == nil {
		switch pk.Pkg.Path() {
		case "strings", "strconv", "unicode", "unicode/utf8", "path", "path/filepath":
			sig := fn.Signature
			basic := func(t types.Type) bool {
				switch u := t.Underlying().(type) {
				case *types.Basic:
					return u.Info()&(types.IsString|types.IsInteger|types.IsBoolean|types.IsFloat) != 0
				case *types.Slice:
					b, ok := u.Elem().Underlying().(*types.Basic)
					return ok && b.Kind() == types.String
				}
				return false
			}
			ok := sig.Results().Len() == 1 && basic(sig.Results().At(0).Type()) && !sig.Variadic()
			for i := 0; ok && i < sig.Params().Len(); i++ {
				ok = basic(sig.Params().At(i).Type())
			}
			if ok {
				fname := strings.NewReplacer(".", "_", "/", "_").Replace(name)
				use(name + ": uninterpreted pure function " + fname + " of its arguments")
				var as []*Term
				var sorts []string
				for i := range args {
					t := T(i)
					as = append(as, t)
					sorts = append(sorts, t.Sort)
				}
				rt := sig.Results().At(0).Type()
				rs := r.SortOf(rt)
				r.DeclFunc(fname, sorts, rs)
				return one(mkT(rs, App(rs, fname, as...).S, rt))
			}
		}
	}
	return nil, false
}

// effectFree: the function literal contains no store, call, escaping allocation, global access or instruction that can panic
func (x *Exec) effectFree(f *ssa.Function) bool {
	for _, b := range f.Blocks {
		for _, in := range b.Instrs {
			local := func(v ssa.Value) bool { a, ok := v.(*ssa.Alloc); return ok && !a.Heap }
			switch in := in.(type) {
			case *ssa.Call:
				if b, ok := in.Call.Value.(*ssa.Builtin); !ok || (b.Name() != "ssa:deferstack" && b.Name() != "len") {
					return false
				}
			case *ssa.Go, *ssa.Defer, *ssa.Panic, *ssa.MapUpdate, *ssa.Send, *ssa.MakeClosure, *ssa.Index, *ssa.IndexAddr, *ssa.Slice, *ssa.TypeAssert, *ssa.FieldAddr:
				return false
			case *ssa.BinOp:
				if in.Op == token.QUO || in.Op == token.REM {
					return false
				}
			case *ssa.Alloc:
				if in.Heap {
					return false
				}
			case *ssa.Store:
				if !local(in.Addr) {
					return false
				}
			case *ssa.UnOp:
				if in.Op == token.ARROW || (in.Op == token.MUL && !local(in.X)) {
					return false
				}
			}
		}
	}
	return true
}

func (x *Exec) ioResult(st *State) []Outcome {
	n := st.Fresh("nwritten", "Int")
	e := st.Fresh("ioerr", "Iface")
	return []Outcome{{st: st, results: []Val{mkT("Int", n.S, types.Typ[types.Int]), e}}}
}

// writerId: the identity of an io.Writer value (an interface): its payload
func (x *Exec) writerId(w *Term) *Term {
	if w.Sort == "Iface" {
		return App("Int", "ival", w)
	}
	return w
}

func (x *Exec) sprintf(format, args *Term) *Term {
	x.reg.SeqSort("Iface")
	x.reg.DeclFunc("fmt_sprintf", []string{"Str", "Seq_Iface"}, "Str")
	return App("Str", "fmt_sprintf", format, args)
}

func (x *Exec) sprint(args *Term, ln bool) *Term {
	x.reg.SeqSort("Iface")
	n := "fmt_sprint"
	if ln {
		n = "fmt_sprintln"
	}
	x.reg.DeclFunc(n, []string{"Seq_Iface"}, "Str")
	return App("Str", n, args)
}

func (x *Exec) litOf(t *Term) (string, bool) {
	if t.S == "sempty" {
		return "", true
	}
	for k, n := range x.reg.lits {
		if n == t.S {
			return k, true
		}
	}
	return "", false
}

func (x *Exec) declIdxByte() {
	x.reg.DeclFunc("idx_byte", []string{"Str", "Int"}, "Int")
	x.reg.Axiom("(assert (forall ((s Str) (c Int)) (! (and (<= (- 1) (idx_byte s c)) (< (idx_byte s c) (slen s)) " +
		"(=> (>= (idx_byte s c) 0) (= (sat s (idx_byte s c)) c)) " +
		"(forall ((j Int)) (! (=> (and (<= 0 j) (< j (slen s)) (or (< (idx_byte s c) 0) (< j (idx_byte s c)))) (not (= (sat s j) c))) :pattern ((sat s j))))) :pattern ((idx_byte s c)))))")
}

// errFrom: nil when ok, otherwise a non-nil error determined by (kind, input)
func (x *Exec) errFrom(st *State, ok *Term, kind string, s *Term) *Term {
	x.reg.DeclFunc("err_of", []string{"Str", "Str"}, "Iface")
	x.reg.Axiom("(assert (forall ((k Str) (s Str)) (! (not (= (itag (err_of k s)) 0)) :pattern ((err_of k s)))))")
	e := App("Iface", "err_of", x.reg.StrLit(kind), s)
	r := Ite(ok, mk("Iface", "inil"), e)
	return mkT("Iface", r.S, types.Universe.Lookup("error").Type())
}

func (x *Exec) newError(st *State, msg *Term) *Term {
	x.reg.DeclFunc("err_new", []string{"Str", "Int"}, "Iface")
	x.reg.DeclFunc("err_msg", []string{"Iface"}, "Str")
	x.reg.Axiom("(assert (forall ((m Str) (i Int)) (! (and (not (= (itag (err_new m i)) 0)) (= (err_msg (err_new m i)) m)) :pattern ((err_new m i)))))")
	id := x.newRef(st, "err")
	return mkT("Iface", App("Iface", "err_new", msg, id).S, types.Universe.Lookup("error").Type())
}

// externInvoke: methods of interfaces declared outside the repository
func (x *Exec) externInvoke(st *State, c *ssa.CallCommon, iname string, recv *Term, args []Val, pos token.Pos) ([]Outcome, bool) {
	named, _ := c.Value.Type().(*types.Named)
	if sig, ok := c.Method.Type().(*types.Signature); ok && sig.Recv() != nil {
		if dn, ok := sig.Recv().Type().(*types.Named); ok {
			named = dn
			iname = dn.Obj().Name()
		}
	}
	pkg := ""
	if named != nil && named.Obj().Pkg() != nil {
		pkg = named.Obj().Pkg().Path()
	}
	full := pkg + "." + iname + "." + c.Method.Name()
	if named == nil || named.Obj().Pkg() == nil {
		full = iname + "." + c.Method.Name()
	}
	// contract declared for an external interface: key "<pkg>::<Iface>.<Method>"
	if con := x.cs.Funcs[pkg+"::"+iname+"."+c.Method.Name()]; con != nil {
		return x.invokeContract(st, c, con, recv, args, pos), true
	}
	switch full {
	case "error.Error":
		x.trusted["extern error.Error(): uninterpreted function err_msg(e)"] = true
		x.reg.DeclFunc("err_msg", []string{"Iface"}, "Str")
		return []Outcome{{st: st, results: []Val{mkT("Str", App("Str", "err_msg", recv).S, types.Typ[types.String])}}}, true
	}
	_ = fmt.Sprint
	_ = strings.TrimSpace
	return nil, false
}

// registerExternSpecs makes the uninterpreted symbols of the extern models available to contracts.
func (x *Exec) registerExternSpecs() {
	r := x.reg
	r.SeqSort("Str")
	r.SeqSort("Iface")
	str := types.Typ[types.String]
	strs := types.NewSlice(str)
	type p = specParam
	add := func(name string, ps []specParam, ret string, retT types.Type) {
		var as []string
		for _, q := range ps {
			as = append(as, q.sort)
		}
		r.DeclFunc(name, as, ret)
		x.specSigs[name] = &specSig{name: name, params: ps, ret: ret, retT: retT}
	}
	add("ParseBool_ok", []p{{"s", "Str", str}}, "Bool", nil)
	add("ParseBool_val", []p{{"s", "Str", str}}, "Bool", nil)
	add("ParseInt_ok", []p{{"s", "Str", str}, {"base", "Int", nil}, {"bits", "Int", nil}}, "Bool", nil)
	add("ParseInt_val", []p{{"s", "Str", str}, {"base", "Int", nil}, {"bits", "Int", nil}}, "Int", nil)
	add("ParseFloat_ok", []p{{"s", "Str", str}, {"bits", "Int", nil}}, "Bool", nil)
	add("ParseFloat_val", []p{{"s", "Str", str}, {"bits", "Int", nil}}, "F64", types.Typ[types.Float64])
	add("env", []p{{"k", "Str", str}}, "Str", str)
	add("strings_Fields", []p{{"s", "Str", str}}, "Seq_Str", strs)
	add("strings_TrimSpace", []p{{"s", "Str", str}}, "Str", str)
	add("strings_Split", []p{{"s", "Str", str}, {"sep", "Str", str}}, "Seq_Str", strs)
	add("strings_Join", []p{{"xs", "Seq_Str", strs}, {"sep", "Str", str}}, "Str", str)
	add("fmt_sprintf", []p{{"f", "Str", str}, {"a", "Seq_Iface", nil}}, "Str", str)
	add("fmt_sprint", []p{{"a", "Seq_Iface", nil}}, "Str", str)
	add("fmt_sprintln", []p{{"a", "Seq_Iface", nil}}, "Str", str)
	add("strconv_Itoa", []p{{"i", "Int", nil}}, "Str", str)
	add("strconv_FormatBool", []p{{"b", "Bool", nil}}, "Str", str)
	add("strconv_Quote", []p{{"s", "Str", str}}, "Str", str)
	add("err_msg", []p{{"e", "Iface", nil}}, "Str", str)
	add("idx_byte", []p{{"s", "Str", str}, {"c", "Int", nil}}, "Int", nil)
	// behaviour oracle of user callbacks: does the call of f made when the trace had length n return, and if not, what does it raise
	add("cbReturns", []p{{"f", "Int", nil}, {"n", "Int", nil}}, "Bool", nil)
	add("cbPanicVal", []p{{"f", "Int", nil}, {"n", "Int", nil}}, "Iface", nil)
	r.Axiom("(assert (forall ((f Int) (n Int)) (! (not (= (itag (cbPanicVal f n)) 0)) :pattern ((cbPanicVal f n)))))")
	x.declIdxByte()
}
