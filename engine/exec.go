package main

import (
	"fmt"
	"go/token"
	"go/types"
	"sort"
	"strings"

	"golang.org/x/tools/go/packages"
	"golang.org/x/tools/go/ssa"
)

type Exec struct {
	prog      *ssa.Program
	pkgs      []*packages.Package
	spkgs     map[string]*ssa.Package
	reg       *Reg
	cs        *ContractSet
	globalIds map[string]int
	funcIds   map[string]int
	funcById  map[int]*ssa.Function
	obls      []*Obligation
	loops     map[*ssa.Function]map[*ssa.BasicBlock]*LoopInfo
	effects   map[*ssa.Function]map[string]bool
	effBusy   map[*ssa.Function]bool
	curFn     string // key of the function under verification
	curPkg    *types.Package
	repoPkgs  map[string]bool
	allFuncs  map[string]*ssa.Function // pkgpath::Key -> function
	fnKey     map[*ssa.Function]string
	cellCtr   int
	frameCtr  int
	ownedCtr  int
	iterCtr   int
	maxPaths  int
	npaths    int
	trusted   map[string]bool // trusted-base items encountered
	repoDir   string
	merged    map[*ssa.Function]*mergedLoops
	callPos   token.Pos // position of the call being inlined (consumed by pushFrame)
	renamed   map[string]map[string]string // per function: contract identifiers remapped to the current variable names
	specSigs  map[string]*specSig
	warnings  []string
	inlineDepth int
	subsetFail []string
	curReveal []string
	curAssumePre []string
	curDecr   []*Term // recursion measure of the function under verification, at its entry
	allPkgs   []*packages.Package
	typeCache map[string]types.Type
}

type LoopInfo struct {
	head    *ssa.BasicBlock
	ordinal int
	body    map[*ssa.BasicBlock]bool
}

func (x *Exec) loopsOf(fn *ssa.Function) map[*ssa.BasicBlock]*LoopInfo {
	if l, ok := x.loops[fn]; ok {
		return l
	}
	res := map[*ssa.BasicBlock]*LoopInfo{}
	for _, b := range fn.Blocks {
		for _, s := range b.Succs {
			if s.Dominates(b) { // back edge b -> s
				li := res[s]
				if li == nil {
					li = &LoopInfo{head: s, body: map[*ssa.BasicBlock]bool{s: true}}
					res[s] = li
				}
				// backward reachability from b up to s
				var stack []*ssa.BasicBlock
				if !li.body[b] {
					li.body[b] = true
					stack = append(stack, b)
				}
				for len(stack) > 0 {
					n := stack[len(stack)-1]
					stack = stack[:len(stack)-1]
					for _, p := range n.Preds {
						if !li.body[p] {
							li.body[p] = true
							stack = append(stack, p)
						}
					}
				}
			}
		}
	}
	var heads []*ssa.BasicBlock
	for h := range res {
		heads = append(heads, h)
	}
	sort.Slice(heads, func(i, j int) bool { return x.loopPos(heads[i]) < x.loopPos(heads[j]) })
	for i, h := range heads {
		res[h].ordinal = i + 1
	}
	x.loops[fn] = res
	return res
}

// loopPos orders loop heads by source position (first positioned instruction of the head; falls back on index)
func (x *Exec) loopPos(h *ssa.BasicBlock) int {
	// block index follows creation order, which follows source order for loop statements
	return h.Index
}

// rootOf walks FieldAddr/IndexAddr chains to the base pointer value
func rootOf(v ssa.Value) ssa.Value {
	for {
		switch a := v.(type) {
		case *ssa.FieldAddr:
			v = a.X
		case *ssa.IndexAddr:
			v = a.X
		default:
			return v
		}
	}
}

// allocIsCell: an Alloc whose address never escapes as a first-class value is a local cell.
func allocIsCell(a *ssa.Alloc) bool {
	var ok func(v ssa.Value, depth int) bool
	ok = func(v ssa.Value, depth int) bool {
		refs := v.Referrers()
		if refs == nil {
			return true
		}
		for _, r := range *refs {
			switch r := r.(type) {
			case *ssa.Store:
				if r.Val == v {
					return false
				}
			case *ssa.UnOp:
				if r.Op != token.MUL {
					return false
				}
			case *ssa.FieldAddr:
				if !ok(r, depth+1) {
					return false
				}
			case *ssa.IndexAddr:
				if !ok(r, depth+1) {
					return false
				}
			case *ssa.MakeClosure:
				if depth > 0 {
					return false
				}
			case *ssa.DebugRef:
			case *ssa.Slice:
				// slicing a local array: value copy under the immutable-sequence idealisation
			default:
				return false
			}
		}
		return true
	}
	return ok(a, 0)
}

// heap arrays touched by a store through address value addr
func (x *Exec) heapTargets(addr ssa.Value) []string {
	// collect the path from the root
	var chain []ssa.Value
	v := addr
	for {
		chain = append(chain, v)
		switch a := v.(type) {
		case *ssa.FieldAddr:
			v = a.X
			continue
		case *ssa.IndexAddr:
			v = a.X
			continue
		}
		break
	}
	root := chain[len(chain)-1]
	if al, ok := root.(*ssa.Alloc); ok && allocIsCell(al) {
		return nil
	}
	if _, ok := root.(*ssa.FreeVar); ok {
		return nil
	}
	if g, ok := root.(*ssa.Global); ok {
		if x.structOf(g.Type().(*types.Pointer).Elem()) == nil {
			a := x.globalAddr(g)
			return []string{a.GlobalArr}
		}
	}
	pt, ok := root.Type().Underlying().(*types.Pointer)
	if !ok {
		if isFreshSlice(root, 0) {
			return nil
		}
		// index into a slice value: element write on a shared backing array
		return []string{"$slice"}
	}
	if si := x.structOf(pt.Elem()); si != nil {
		if len(chain) >= 2 {
			if fa, ok := chain[len(chain)-2].(*ssa.FieldAddr); ok {
				n, _ := x.reg.FieldArray(si, fa.Field)
				return []string{n}
			}
		}
		var ns []string
		for i := range si.Fields {
			n, _ := x.reg.FieldArray(si, i)
			ns = append(ns, n)
		}
		return ns
	}
	return []string{x.reg.BoxArray(x.reg.SortOf(pt.Elem()))}
}

func (x *Exec) isRepoFunc(fn *ssa.Function) bool {
	if fn == nil || fn.Pkg == nil {
		if fn != nil && fn.Parent() != nil {
			return x.isRepoFunc(fn.Parent())
		}
		return false
	}
	return x.repoPkgs[fn.Pkg.Pkg.Path()]
}

// effectsOf: heap arrays (by name) a function may write, transitively.
// value true: may write at pre-existing objects; false: writes only at objects allocated during the call (fresh-only).
func (x *Exec) effectsOf(fn *ssa.Function) map[string]bool {
	if e, ok := x.effects[fn]; ok {
		return e
	}
	if x.effBusy[fn] {
		return map[string]bool{} // recursion: fixpoint below
	}
	x.effBusy[fn] = true
	e := map[string]bool{}
	if c := x.contractOf(fn); c != nil {
		for _, m := range c.Modifies {
			e[m] = true
		}
	}
	if fn.Blocks == nil || !x.isRepoFunc(fn) {
		for _, n := range x.externEffects(fn) {
			e[n] = true
		}
		delete(x.effBusy, fn)
		x.effects[fn] = e
		return e
	}
	changed := true
	for iter := 0; changed && iter < 4; iter++ {
		changed = false
		add := func(n string, full bool) {
			if cur, ok := e[n]; !ok || (full && !cur) {
				e[n] = full
				changed = true
			}
		}
		for _, b := range fn.Blocks {
			for _, in := range b.Instrs {
				switch in := in.(type) {
				case *ssa.Store:
					_, rootIsAlloc := rootOf(in.Addr).(*ssa.Alloc)
					for _, n := range x.heapTargets(in.Addr) {
						add(n, !rootIsAlloc)
					}
				case *ssa.Alloc:
					if !allocIsCell(in) {
						elem := in.Type().Underlying().(*types.Pointer).Elem()
						for _, n := range x.arraysOfType(elem) {
							add(n, false)
						}
					}
				case *ssa.MakeMap:
					mt := in.Type().Underlying().(*types.Map)
					d, v := x.reg.MapArrays(x.reg.SortOf(mt.Key()), x.reg.SortOf(mt.Elem()))
					add(d, false)
					add(v, false)
				case *ssa.MapUpdate:
					mt := in.Map.Type().Underlying().(*types.Map)
					d, v := x.reg.MapArrays(x.reg.SortOf(mt.Key()), x.reg.SortOf(mt.Elem()))
					add(d, true)
					add(v, true)
				case ssa.CallInstruction:
					for n, full := range x.callEffects(in.Common(), fn) {
						add(n, full)
					}
				}
			}
		}
		for _, af := range fn.AnonFuncs {
			for n, full := range x.effectsOf(af) {
				add(n, full)
			}
		}
	}
	delete(x.effBusy, fn)
	x.effects[fn] = e
	return e
}

// heap arrays that hold an object of type t
func (x *Exec) arraysOfType(t types.Type) []string {
	if si := x.structOf(t); si != nil {
		var ns []string
		for i := range si.Fields {
			n, _ := x.reg.FieldArray(si, i)
			ns = append(ns, n)
		}
		return ns
	}
	return []string{x.reg.BoxArray(x.reg.SortOf(t))}
}

func mergeEff(dst map[string]bool, n string, full bool) {
	if cur, ok := dst[n]; !ok || (full && !cur) {
		dst[n] = full
	}
}

func (x *Exec) callEffects(c *ssa.CallCommon, in *ssa.Function) map[string]bool {
	e := map[string]bool{}
	if c.IsInvoke() {
		for _, impl := range x.implementers(c) {
			for n, full := range x.effectsOf(impl) {
				mergeEff(e, n, full)
			}
		}
		// a protocol method with a contract touches the ghost trace only by its own logged event
		if con := x.ifaceContract(c); con != nil {
			if con.Logged {
				e["$trace"] = true
			} else {
				delete(e, "$trace")
			}
			return e
		}
		e["$trace"] = true
		return e
	}
	if _, ok := c.Value.(*ssa.Builtin); ok {
		return e
	}
	if callee := c.StaticCallee(); callee != nil {
		for n, full := range x.effectsOf(callee) {
			mergeEff(e, n, full)
		}
		return e
	}
	// dynamic call of a function value: closures of the enclosing function are covered by AnonFuncs; others are callbacks
	if isLocalClosureCall(c.Value) {
		return e
	}
	e["$trace"] = true
	for _, n := range x.mutatorArrays(c.Value) {
		for _, hn := range x.reg.HeapNames() {
			if hn == n || (strings.HasSuffix(n, "*") && strings.HasPrefix(hn, strings.TrimSuffix(n, "*"))) {
				e[hn] = true
			}
		}
	}
	return e
}

// implementers of an interface method among repo types
func (x *Exec) implementers(c *ssa.CallCommon) []*ssa.Function {
	it, ok := c.Value.Type().Underlying().(*types.Interface)
	if !ok {
		return nil
	}
	var res []*ssa.Function
	for _, p := range x.spkgs {
		for _, m := range p.Members {
			t, ok := m.(*ssa.Type)
			if !ok {
				continue
			}
			for _, T := range []types.Type{t.Type(), types.NewPointer(t.Type())} {
				if _, isIface := T.Underlying().(*types.Interface); isIface {
					continue
				}
				if !types.Implements(T, it) {
					continue
				}
				ms := x.prog.MethodSets.MethodSet(T)
				sel := ms.Lookup(c.Method.Pkg(), c.Method.Name())
				if sel == nil {
					continue
				}
				f := x.prog.MethodValue(sel)
				if f != nil {
					// unwrap synthetic pointer-receiver wrappers
					res = append(res, f)
				}
			}
		}
	}
	return res
}

func (x *Exec) externEffects(fn *ssa.Function) []string {
	name := fn.String()
	switch {
	case strings.HasPrefix(name, "fmt.Fp"), strings.HasPrefix(name, "(*text/tabwriter.Writer)"):
		return []string{"$trace"}
	}
	return nil
}

// ---------------------------------------------------------------------------

func (x *Exec) contractOf(fn *ssa.Function) *Contract {
	k, ok := x.fnKey[fn]
	if !ok {
		return nil
	}
	return x.cs.Funcs[k]
}

func funcKey(fn *ssa.Function) string {
	// methods: (*T).Name or (T).Name; closures: Parent$1
	name := fn.Name()
	if fn.Parent() != nil {
		return funcKey(fn.Parent()) + strings.TrimPrefix(fn.Name(), fn.Parent().Name())
	}
	if recv := fn.Signature.Recv(); recv != nil {
		rt := recv.Type()
		if p, ok := rt.(*types.Pointer); ok {
			return "(*" + typeBase(p.Elem()) + ")." + name
		}
		return "(" + typeBase(rt) + ")." + name
	}
	return name
}

func typeBase(t types.Type) string {
	if n, ok := t.(*types.Named); ok {
		return n.Obj().Name()
	}
	return t.String()
}

func (x *Exec) indexFuncs() {
	x.allFuncs = map[string]*ssa.Function{}
	x.fnKey = map[*ssa.Function]string{}
	var addFn func(fn *ssa.Function, pkgPath string)
	addFn = func(fn *ssa.Function, pkgPath string) {
		if fn != nil && fn.Synthetic != "" && fn.Name() == "init" {
			// the package initialiser is synthetic, the function literals of package-level variables are not
			for _, af := range fn.AnonFuncs {
				addFn(af, pkgPath)
			}
			return
		}
		if fn == nil || fn.Synthetic != "" {
			return
		}
		k := pkgPath + "::" + funcKey(fn)
		x.allFuncs[k] = fn
		x.fnKey[fn] = k
		for _, af := range fn.AnonFuncs {
			addFn(af, pkgPath)
		}
	}
	for path, p := range x.spkgs {
		for _, m := range p.Members {
			switch m := m.(type) {
			case *ssa.Function:
				addFn(m, path)
			case *ssa.Type:
				for _, T := range []types.Type{m.Type(), types.NewPointer(m.Type())} {
					ms := x.prog.MethodSets.MethodSet(T)
					for i := 0; i < ms.Len(); i++ {
						f := x.prog.MethodValue(ms.At(i))
						if f != nil && f.Synthetic == "" && f.Pkg == p {
							addFn(f, path)
						}
					}
				}
			}
		}
	}
}

// ---------------------------------------------------------------------------
// obligations

type Obligation struct {
	Func    string
	Kind    string // post, panic-post, inv-init, inv-pres, pre, safety, decreases, frame, lemma, subset, cover
	Name    string // clause name or safety kind
	Goal    string
	Assume  []string
	Decls   []string
	Path    []string
	Pos     string
	Callee  string
	Src     string
	Reveal  []string
	Synt    bool // decided syntactically on the SSA (frame sweep): Goal is literally true or false
}

func (o *Obligation) FullName() string {
	return o.Func + "/" + o.Kind + "/" + o.Name
}

func (x *Exec) obligeDummy() {}

func (x *Exec) oblige(st *State, kind, name string, goal *Term, pos token.Pos) {
	if goal.S == "true" || st.dead {
		return
	}
	o := &Obligation{Func: x.curFn, Kind: kind, Name: name, Goal: goal.S, Reveal: x.curReveal,
		Assume: append([]string(nil), st.assume...), Decls: append([]string(nil), st.decls...),
		Path: append([]string(nil), st.path...), Pos: x.posStr(pos)}
	x.obls = append(x.obls, o)
	if kind == "safety" || kind == "pre" {
		st.Assume(goal)
	}
}

func (x *Exec) obligeSrc(st *State, kind, name string, goal *Term, pos token.Pos, src string) {
	n := len(x.obls)
	x.oblige(st, kind, name, goal, pos)
	if len(x.obls) > n {
		x.obls[len(x.obls)-1].Src = src
	}
}

func (x *Exec) warn(f string, a ...interface{}) {
	x.warnings = append(x.warnings, fmt.Sprintf(f, a...))
}

// isFreshSlice: the value is (a sub-slice of) a slice made in this function, possibly read back from a local cell
// that only ever holds such slices.
func isFreshSlice(v ssa.Value, depth int) bool {
	if depth > 4 {
		return false
	}
	switch v := v.(type) {
	case *ssa.MakeSlice:
		return true
	case *ssa.Call:
		// library functions that return a newly allocated slice
		if callee := v.Call.StaticCallee(); callee != nil {
			switch callee.String() {
			case "strings.Fields", "strings.Split", "strings.SplitN":
				return true
			}
		}
		return false
	case *ssa.Slice:
		return isFreshSlice(v.X, depth+1)
	case *ssa.UnOp:
		if v.Op != token.MUL {
			return false
		}
		al, ok := v.X.(*ssa.Alloc)
		if !ok || !allocIsCell(al) {
			return false
		}
		n := 0
		for _, r := range *al.Referrers() {
			if st, ok := r.(*ssa.Store); ok && st.Addr == al {
				n++
				if !isFreshSlice(st.Val, depth+1) {
					return false
				}
			}
		}
		return n > 0
	}
	return false
}

// isLocalClosureCall: the callee is read from a local variable that only ever holds closures made in this function
func isLocalClosureCall(v ssa.Value) bool {
	if _, ok := v.(*ssa.MakeClosure); ok {
		return true
	}
	u, ok := v.(*ssa.UnOp)
	if !ok || u.Op != token.MUL {
		return false
	}
	al, ok := u.X.(*ssa.Alloc)
	if !ok {
		return false
	}
	n := 0
	for _, r := range *al.Referrers() {
		if st, ok := r.(*ssa.Store); ok && st.Addr == al {
			n++
			if _, ok := st.Val.(*ssa.MakeClosure); !ok {
				return false
			}
		}
	}
	return n > 0
}

func (x *Exec) ifaceContract(c *ssa.CallCommon) *Contract {
	named, _ := c.Value.Type().(*types.Named)
	if sig, ok := c.Method.Type().(*types.Signature); ok && sig.Recv() != nil {
		if dn, ok := sig.Recv().Type().(*types.Named); ok {
			named = dn
		}
	}
	if named == nil || named.Obj().Pkg() == nil {
		return nil
	}
	return x.cs.Funcs[named.Obj().Pkg().Path()+"::"+named.Obj().Name()+"."+c.Method.Name()]
}
