package main

import (
	"context"
	"encoding/json"
	"fmt"
	"os"
	"os/exec"
	"path/filepath"
	"regexp"
	"sort"
	"strings"
	"time"
)

type PropSpec struct {
	Level       string                       `json:"level"` // proof | other
	Funcs       []string                     `json:"funcs"`
	Deep        []string                     `json:"deep"` // the functions the property is stated on: thorough treatment in the thorough tier (the rest of the cone is decided as in the quick tier); empty: all
	Clauses     []string                     `json:"clauses"` // regexps over obligation names that count for this property (default: all)
	Exclude     []string                     `json:"exclude"`
	Explanation string                       `json:"explanation"`
	Assumptions []string                     `json:"assumptions"`
	Bounded     []string                     `json:"bounded"`      // descriptions of bounded stand-ins (never counted as discharged)
	BoundedCmds map[string]map[string]string `json:"bounded_cmds"` // name -> tier -> command (cwd /verif) printing one JSON line {"name","ok","bound",...,"counterexample"}
	NotDecided  []string                     `json:"not_decided"`
}

type KnownFinding struct {
	ID         string `json:"id"`
	Property   string `json:"property"`
	Obligation string `json:"obligation"` // failing obligation, or "witness-only" for findings without an obligation yet
	Witness    string `json:"witness"`
	Test       string `json:"test"`   // test in replay/witnesses/defects_test.go that fails while the defect is present
	Status     string `json:"status"` // open | fixed
	Commit     string `json:"commit,omitempty"`
	Note       string `json:"note,omitempty"`
}

// witnessStillFails replays the finding's witness against the real code (go test -overlay); true = the defect is still there
var witnessRepo = "/repo"

func witnessStillFails(test string) (bool, string) {
	if test == "" {
		return true, "no witness test recorded"
	}
	cmd := exec.Command("/verif/replay/run_witnesses.sh", "-run", "^"+test+"$")
	cmd.Env = append(os.Environ(), "VERIF_REPO="+witnessRepo)
	out, err := cmd.CombinedOutput()
	return err != nil, firstLines(string(out), 6)
}

func matchAny(res []*regexp.Regexp, s string) bool {
	for _, r := range res {
		if r.MatchString(s) {
			return true
		}
	}
	return false
}

func compileAll(ss []string) []*regexp.Regexp {
	var out []*regexp.Regexp
	for _, s := range ss {
		out = append(out, regexp.MustCompile("^(?:"+s+")$"))
	}
	return out
}

func (x *Exec) runProperty(prop, mapFile, tier, evDir, dump, known, replayDir string, verbose bool, t0 time.Time) int {
	data, err := os.ReadFile(mapFile)
	if err != nil {
		fmt.Fprintln(os.Stderr, "govc:", err)
		return 2
	}
	var pm map[string]*PropSpec
	if err := json.Unmarshal(data, &pm); err != nil {
		fmt.Fprintln(os.Stderr, "govc: obligations map:", err)
		return 2
	}
	ps := pm[prop]
	if ps == nil {
		fmt.Fprintf(os.Stderr, "govc: property %s not in %s\n", prop, mapFile)
		return 2
	}
	var findings []KnownFinding
	if known != "" {
		if d, err := os.ReadFile(known); err == nil {
			if err := json.Unmarshal(d, &findings); err != nil {
				fmt.Fprintln(os.Stderr, "govc: known findings:", err)
				return 2
			}
		}
	}
	fre := compileAll(ps.Funcs)
	reports := x.generate(func(name string) bool { return matchAny(fre, name) })
	cre := compileAll(ps.Clauses)
	xre := compileAll(ps.Exclude)
	var obls []*Obligation
	for _, o := range x.obls {
		n := o.FullName()
		if len(cre) > 0 && !matchAny(cre, n) && o.Kind != "subset" && o.Kind != "cover" {
			continue
		}
		if matchAny(xre, n) {
			continue
		}
		obls = append(obls, o)
	}
	tGen := time.Since(t0)
	opts := defaultOpts(tier)
	if dre := compileAll(ps.Deep); len(dre) > 0 {
		opts.Deep = func(o *Obligation) bool {
			f := o.Func
			if i := strings.Index(f, "~"); i >= 0 {
				f = f[:i]
			}
			return matchAny(dre, f)
		}
	}
	rs := x.solveAll(obls, opts)
	sums := summarize(rs)

	nObl, nDis, nCover, nCoverOK := 0, 0, 0, 0
	var solverMs int64
	backends := map[string]int{}
	var failed []*OblSummary
	for _, s := range sums {
		solverMs += s.Ms
		if s.Kind == "cover" {
			nCover++
			if s.Status == "reachable" {
				nCoverOK++
			} else {
				failed = append(failed, s)
			}
			continue
		}
		nObl++
		if s.Status == "discharged" {
			nDis++
			for _, b := range s.Backends {
				backends[b]++
			}
		} else if s.Status != "SKIPPED" {
			failed = append(failed, s)
		}
	}
	if replayDir == "" {
		replayDir = "replay/out"
	}
	os.MkdirAll(replayDir, 0o755)
	violations := 0
	var knownHit []string
	// replay: the solvers' models talk about heap arrays and uninterpreted strings, not about Go values, and are not
	// turned into inputs. Instead, once (and only once) an obligation that is not a listed finding has failed, a fixed
	// battery of small scenarios is run through the public API of the working tree and of the pristine copy of the tree the
	// contracts were verified on (replay/diff); the first scenario on which the two behave differently is attached to
	// every violation of this run as its failing input. It decides nothing.
	var diff map[string]interface{}
	diffTried := false
	failingInput := func() map[string]interface{} {
		if !diffTried {
			diffTried = true
			if os.Getenv("GOVC_FAILFAST") == "" && os.Getenv("GOVC_NOREPLAY") == "" {
				bc := exec.Command("/verif/replay/diff/run.sh")
				bc.Env = append(os.Environ(), "VERIF_REPO="+x.repoDir)
				if out, err := bc.Output(); err == nil {
					lines := strings.Split(strings.TrimSpace(string(out)), "\n")
					var res map[string]interface{}
					if json.Unmarshal([]byte(lines[len(lines)-1]), &res) == nil {
						diff = res
					}
				}
			}
		}
		if d, _ := diff["differs"].(bool); d {
			return diff
		}
		return nil
	}
	for _, s := range failed {
		isKnown := false
		for _, k := range findings {
			if k.Property == prop && k.Status == "open" && k.Obligation == s.Name {
				still, out := witnessStillFails(k.Test)
				if !still {
					fmt.Printf("obligation %s is a listed finding (%s) but its witness no longer fails against the real code: %s\n", s.Name, k.ID, strings.TrimSpace(out))
					continue
				}
				fmt.Printf("KNOWN-FINDING: property=%s %s %s: %s\n", prop, k.ID, s.Name, k.Witness)
				knownHit = append(knownHit, s.Name)
				isKnown = true
			}
		}
		if isKnown {
			continue
		}
		violations++
		fi := failingInput()
		rp := x.writeReplay(replayDir, prop, s, fi)
		fmt.Printf("FAILED %s (%d/%d path checks discharged)\n", s.Name, s.Proved, s.Checks)
		for i, f := range s.Failed {
			if i >= 2 {
				break
			}
			fmt.Printf("   %s at %s: %s\n", f.Status, f.Obl.Pos, strings.TrimSpace(firstLines(f.Obl.Src, 1)))
		}
		if fi != nil {
			if f, ok := fi["first"].(map[string]interface{}); ok {
				fmt.Printf("   failing input (differential search against the verified tree): %v\n", f["scenario"])
				if fl, ok := f["first_differing_line"].(map[string]interface{}); ok {
					fmt.Printf("      verified tree: %v\n      current tree:  %v\n", fl["verified_tree"], fl["current_tree"])
				}
			}
			fmt.Printf("VIOLATION property=%s replay=%s\n", prop, rp)
		} else {
			fmt.Printf("VIOLATION property=%s replay=%s no-failing-input-found\n", prop, rp)
		}
	}
	// bounded stand-ins: labelled bounded everywhere, never added to the discharged count
	var boundedRes []map[string]interface{}
	var bnames []string
	for n := range ps.BoundedCmds {
		bnames = append(bnames, n)
	}
	sort.Strings(bnames)
	for _, n := range bnames {
		if os.Getenv("GOVC_FAILFAST") != "" && violations > 0 {
			break // bulk runs over mutants: the verdict is settled
		}
		cmdline := ps.BoundedCmds[n][tier]
		if cmdline == "" {
			cmdline = ps.BoundedCmds[n]["quick"]
		}
		tb := time.Now()
		bc := exec.Command("sh", "-c", cmdline)
		bc.Env = append(os.Environ(), "VERIF_REPO="+x.repoDir)
		out, err := bc.CombinedOutput()
		var res map[string]interface{}
		lines := strings.Split(strings.TrimSpace(string(out)), "\n")
		if jerr := json.Unmarshal([]byte(lines[len(lines)-1]), &res); jerr != nil || err != nil && res == nil {
			res = map[string]interface{}{"name": n, "ok": false, "counterexample": map[string]interface{}{"problem": "bounded harness did not produce a result", "output": firstLines(string(out), 10)}}
		}
		res["cmd"] = cmdline
		res["wall_s"] = time.Since(tb).Seconds()
		res["label"] = "bounded"
		boundedRes = append(boundedRes, res)
		if ok, _ := res["ok"].(bool); !ok {
			violations++
			p := filepath.Join(replayDir, prop+"-bounded-"+n+".json")
			b, _ := json.MarshalIndent(map[string]interface{}{"property": prop, "failed_obligation": "bounded/" + n, "kind": "bounded stand-in", "failing_input_found": true, "result": res}, "", " ")
			os.WriteFile(p, b, 0o644)
			abs, _ := filepath.Abs(p)
			fmt.Printf("FAILED bounded/%s: %v\n", n, res["counterexample"])
			fmt.Printf("VIOLATION property=%s replay=%s\n", prop, abs)
		}
	}
	for _, k := range findings {
		if k.Property == prop && k.Status == "open" && k.Obligation == "witness-only" {
			if still, _ := witnessStillFails(k.Test); still {
				fmt.Printf("KNOWN-FINDING: property=%s %s (witness replay, no obligation yet): %s\n", prop, k.ID, k.Witness)
				knownHit = append(knownHit, k.ID)
			}
		}
	}
	if nObl == 0 {
		fmt.Printf("govc: property %s generated no obligations: the check is broken\n", prop)
		return 2
	}
	if verbose {
		for _, s := range sums {
			fmt.Printf("%-12s %-75s %d/%d %v %dms\n", s.Status, s.Name, s.Proved, s.Checks, s.Backends, s.Ms)
		}
	}
	// evidence
	var funcsUnder []string
	var subsetErrs []string
	for _, r := range reports {
		if r.Trusted {
			continue
		}
		funcsUnder = append(funcsUnder, r.Key)
		if r.Err != "" {
			subsetErrs = append(subsetErrs, r.Key+": "+r.Err)
		}
	}
	var trusted []string
	for k := range x.trusted {
		trusted = append(trusted, k)
	}
	sort.Strings(trusted)
	trusted = append(trusted,
		"go/types + go/ssa (NaiveForm) lowering of the real package sources agrees with the Go compiler",
		"SMT solvers are sound for unsat: z3 4.8.12, z3 5.1.0, cvc5 1.0.3",
		"integers are mathematical (A-int); slices and strings are immutable sequence values (A-seq)")
	var oblList []map[string]interface{}
	var samples []map[string]interface{}
	for _, s := range sums {
		oblList = append(oblList, map[string]interface{}{"name": s.Name, "kind": s.Kind, "path_checks": s.Checks, "proved": s.Proved,
			"status": s.Status, "backends": s.Backends, "solver_ms": s.Ms})
		if len(samples) < 6 && s.Kind != "cover" && s.Kind != "safety" && s.Src != "" {
			samples = append(samples, map[string]interface{}{"obligation": s.Name, "clause": s.Src, "status": s.Status, "path_checks": s.Checks})
		}
	}
	if len(samples) == 0 {
		for _, s := range sums {
			if len(samples) < 4 {
				samples = append(samples, map[string]interface{}{"obligation": s.Name, "status": s.Status, "path_checks": s.Checks})
			}
		}
	}
	level := ps.Level
	if level == "" {
		level = "proof"
	}
	cov := map[string]interface{}{
		"obligations":                   nObl,
		"discharged":                    nDis,
		"path_checks":                   len(rs),
		"checker_cmd":                   fmt.Sprintf("bin/govc -repo /repo -prop %s -tier %s (VC generator over go/ssa of /repo's working tree; solvers z3 4.8.12, z3 5.1.0, cvc5 1.0.3 raced per path check)", prop, tier),
		"trusted_base":                  trusted,
		"functions_under_contract":      funcsUnder,
		"obligation_list":               oblList,
		"samples":                       samples,
		"backends":                      backends,
		"solver_ms":                     solverMs,
		"canaries":                      map[string]int{"cover_obligations": nCover, "reachable": nCoverOK},
		"known_findings_hit":            knownHit,
		"bounded_stand_ins":             ps.Bounded,
		"bounded_results":               boundedRes,
		"not_decided":                   ps.NotDecided,
		"outside_subset":                subsetErrs,
		"explanation":                   ps.Explanation,
		"contract_files":                x.relFiles(),
		"contract_identifiers_remapped": x.renamed, // function -> {name in the contract: current name}; empty on the tree the contracts were written for
		"loops_adopted_from_helpers":    x.adoptedLoops(),
	}
	if tier == "thorough" && len(ps.Deep) > 0 {
		// which functions got the thorough treatment (long budgets, every back end on every path); the rest of the cone was
		// decided with the quick tier's budgets
		cov["thorough_treatment_functions"] = ps.Deep
	}
	ev := map[string]interface{}{
		"property_id": prop,
		"tier":        tier,
		"seed":        seedFromEnv(),
		"level":       level,
		"coverage":    cov,
		"assumptions": append(append([]string(nil), ps.Assumptions...), trusted...),
		"wall_s":      time.Since(t0).Seconds(),
		"violations":  violations,
	}
	if evDir != "" {
		os.MkdirAll(evDir, 0o755)
		b, _ := json.MarshalIndent(ev, "", " ")
		os.WriteFile(filepath.Join(evDir, prop+".json"), b, 0o644)
	}
	fmt.Printf("%s %s: %d obligations, %d discharged, %d known findings, %d violations; %d path checks; vcgen %.1fs, total %.1fs\n",
		prop, tier, nObl, nDis, len(knownHit), violations, len(rs), tGen.Seconds(), time.Since(t0).Seconds())
	if violations > 0 {
		return 1
	}
	return 0
}

func seedFromEnv() int {
	var n int
	fmt.Sscan(os.Getenv("VERIF_SEED"), &n)
	return n
}

func (x *Exec) relFiles() []string {
	var out []string
	for _, f := range x.cs.Files {
		out = append(out, shortFile(f))
	}
	sort.Strings(out)
	return out
}

func (x *Exec) writeReplay(dir, prop string, s *OblSummary, failingInput map[string]interface{}) string {
	name := prop + "-" + sanitizeFile(s.Name)
	p := filepath.Join(dir, name+".json")
	var checks []map[string]interface{}
	for i, f := range s.Failed {
		if i >= 5 {
			break
		}
		q := dumpQuery(dir, fmt.Sprintf("%s-%d", name, i), f.Query)
		entry := map[string]interface{}{"status": f.Status, "backend": f.Backend, "position": f.Obl.Pos, "path": f.Obl.Path,
			"solver_output": firstLines(f.Output, 30), "query": q, "goal": trunc(f.Obl.Goal, 2000)}
		if i == 0 && !f.Obl.Synt && f.Query != "" {
			// candidate model of the negated obligation (a hint, not a confirmed input): z3 with models on, short timeout
			mq := strings.Replace(f.Query, "(set-option :produce-models false)", "(set-option :produce-models true)", 1) + "(get-model)\n"
			_, out, _ := runSolver(context.Background(), solverCmd("z3", 4000), mq, 6000)
			if strings.Contains(out, "define-fun") {
				entry["candidate_model_unconfirmed"] = firstLines(out, 80)
			}
		}
		checks = append(checks, entry)
	}
	doc := map[string]interface{}{
		"property":            prop,
		"failed_obligation":   s.Name,
		"function":            s.Func,
		"kind":                s.Kind,
		"clause":              s.Src,
		"path_checks":         s.Checks,
		"discharged":          s.Proved,
		"failing_checks":      checks,
		"failing_input_found": false,
		"note":                "no input replayed against the real code; the obligation passed on the unchanged tree and fails on this one",
	}
	if failingInput != nil {
		doc["failing_input_found"] = true
		doc["failing_input"] = failingInput["first"]
		doc["failing_input_differing_scenarios"] = failingInput["differing_scenarios"]
		doc["note"] = "the obligation passed on the unchanged tree and fails on this one; the failing input was found by a differential search (replay/diff: the same scenario program run on the verified tree and on this tree), not derived from the solver's model; it shows a behavioural difference, which is not necessarily the violation the obligation speaks of"
	}
	b, _ := json.MarshalIndent(doc, "", " ")
	os.WriteFile(p, b, 0o644)
	abs, err := filepath.Abs(p)
	if err == nil {
		return abs
	}
	return p
}
