package main

import (
	"fmt"
	"os"

	"golang.org/x/tools/go/packages"
	"golang.org/x/tools/go/ssa"
	"golang.org/x/tools/go/ssa/ssautil"
)

func main() {
	cfg := &packages.Config{Mode: packages.LoadAllSyntax, Dir: os.Args[1], BuildFlags: []string{"-tags=verif"}}
	pkgs, err := packages.Load(cfg, "./...")
	if err != nil {
		panic(err)
	}
	prog, spkgs := ssautil.AllPackages(pkgs, ssa.NaiveForm|ssa.GlobalDebug)
	prog.Build()
	for _, p := range spkgs {
		if p == nil {
			continue
		}
		for _, m := range p.Members {
			if f, ok := m.(*ssa.Function); ok && f.Name() == os.Args[2] {
				f.WriteTo(os.Stdout)
				for _, af := range f.AnonFuncs {
					af.WriteTo(os.Stdout)
				}
			}
		}
		for _, m := range p.Members {
			if t, ok := m.(*ssa.Type); ok {
				for _, tt := range []interface{ NumMethods() int }{} {
					_ = tt
				}
				ms := prog.MethodSets.MethodSet(t.Type())
				for i := 0; i < ms.Len(); i++ {
					f := prog.MethodValue(ms.At(i))
					if f != nil && f.Name() == os.Args[2] {
						f.WriteTo(os.Stdout)
					}
				}
				ms = prog.MethodSets.MethodSet(typesPointer(t))
				for i := 0; i < ms.Len(); i++ {
					f := prog.MethodValue(ms.At(i))
					if f != nil && f.Name() == os.Args[2] && f.Synthetic == "" {
						f.WriteTo(os.Stdout)
						for _, af := range f.AnonFuncs {
							af.WriteTo(os.Stdout)
						}
					}
				}
			}
		}
	}
	fmt.Println("done")
}
