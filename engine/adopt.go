package main

// Loop adoption. Loop invariants are keyed by the ordinal of the loop in the function under contract. When a refactoring
// moves one of those loops into a new helper function (which has no contract and is therefore inlined), the loop is still
// executed at the same place of the same computation: its invariant is still the right one. The ordinals of a function
// whose contract specifies more loops than its body has are therefore counted over the function *with its contract-less
// helpers inlined*: walking the source in order, a loop statement takes the next ordinal and a call of a contract-less
// helper takes as many ordinals as the helper has loops. The helper's loops are then verified against the caller's
// specifications, whose identifiers are looked up in the helper's frame first and in the caller's frame second.

import (
	"go/ast"
	"go/token"
	"go/types"
	"sort"

	"golang.org/x/tools/go/ssa"
)

type mergedLoops struct {
	active  bool
	own     []int             // own rank-1 -> ordinal
	adopted map[token.Pos]int // position of the call (its opening parenthesis) -> ordinal before the callee's first loop
}

func (x *Exec) mergedLoopsOf(fn *ssa.Function) *mergedLoops {
	if m, ok := x.merged[fn]; ok {
		return m
	}
	if x.merged == nil {
		x.merged = map[*ssa.Function]*mergedLoops{}
	}
	m := &mergedLoops{adopted: map[token.Pos]int{}}
	x.merged[fn] = m
	con := x.contractOf(fn)
	if con == nil || fn.Syntax() == nil {
		return m
	}
	maxSpec := 0
	for o := range con.Loops {
		if o > maxSpec {
			maxSpec = o
		}
	}
	nOwn := len(x.loopsOf(fn))
	if maxSpec <= nOwn {
		return m // every specified loop is in the body: numbering as written
	}
	var info *types.Info
	for _, p := range x.pkgs {
		if fn.Pkg != nil && p.Types == fn.Pkg.Pkg {
			info = p.TypesInfo
		}
	}
	var body *ast.BlockStmt
	switch s := fn.Syntax().(type) {
	case *ast.FuncDecl:
		body = s.Body
	case *ast.FuncLit:
		body = s.Body
	}
	if info == nil || body == nil {
		return m
	}
	ord := 0
	ast.Inspect(body, func(n ast.Node) bool {
		switch n := n.(type) {
		case *ast.FuncLit:
			return false
		case *ast.ForStmt, *ast.RangeStmt:
			ord++
			m.own = append(m.own, ord)
		case *ast.CallExpr:
			var id *ast.Ident
			switch f := n.Fun.(type) {
			case *ast.Ident:
				id = f
			case *ast.SelectorExpr:
				id = f.Sel
			}
			if id == nil {
				return true
			}
			obj, ok := info.Uses[id].(*types.Func)
			if !ok {
				return true
			}
			callee := x.prog.FuncValue(obj)
			if callee == nil || callee.Blocks == nil || !x.isRepoFunc(callee) || x.contractOf(callee) != nil {
				return true
			}
			if k := len(x.loopsOf(callee)); k > 0 {
				m.adopted[n.Lparen] = ord
				ord += k
			}
		}
		return true
	})
	m.active = len(m.adopted) > 0 && len(m.own) == nOwn
	return m
}

// loopContext: the specification, the ordinal and the frame whose contract it comes from, for loop li of frame f.
func (x *Exec) loopContext(st *State, f *Frame, li *LoopInfo) (spec *LoopSpec, ord int, host *Frame) {
	if con := x.contractOf(f.fn); con != nil {
		ord = li.ordinal
		if m := x.mergedLoopsOf(f.fn); m.active {
			ord = m.own[li.ordinal-1]
		}
		return con.Loops[ord], ord, f
	}
	if hf := x.hostFrame(st, f); hf != nil {
		m := x.mergedLoopsOf(hf.fn)
		return x.contractOf(hf.fn).Loops[m.adopted[f.callPos]+li.ordinal], m.adopted[f.callPos] + li.ordinal, hf
	}
	return nil, li.ordinal, f
}

// hostFrame: the calling frame whose contract specifies the loops of the contract-less helper running in f (or nil)
func (x *Exec) hostFrame(st *State, f *Frame) *Frame {
	if f == nil || x.contractOf(f.fn) != nil || f.fn.Parent() != nil {
		return nil
	}
	for i, g := range st.frames {
		if g == f && i > 0 {
			hf := st.frames[i-1]
			if m := x.mergedLoopsOf(hf.fn); m.active {
				if _, ok := m.adopted[f.callPos]; ok {
					return hf
				}
			}
		}
	}
	return nil
}

// adoptedLoops: for the evidence, the helpers whose loops were verified against their caller's specifications
func (x *Exec) adoptedLoops() []string {
	var out []string
	for fn, m := range x.merged {
		if m.active {
			out = append(out, x.fnKey[fn])
		}
	}
	sort.Strings(out)
	return out
}
