package main

import (
	"go/token"
	"fmt"
	"go/types"
	"strings"

	"golang.org/x/tools/go/ssa"
)

// Val is a symbolic value: *Term, *Addr, *Closure, Tuple, *FuncRef, *Iter
type Val interface{}

type PathElem struct {
	Field   int
	Index   *Term
	IsIndex bool
}

type Cell struct {
	id   int
	name string
	typ  types.Type
}

type Addr struct {
	Own  *Owned     // freshly made slice base (Path[0] is an index)
	Cell *Cell      // local cell base
	Ref  *Term      // heap base (Int)
	Elem types.Type // type of the base object
	Path []PathElem
	ReadOnly bool
	GlobalArr string // package-level variable: its own heap array (indexed by the variable's id)
}

type Closure struct {
	Fn   *ssa.Function
	Bind []Val
}

type FuncRef struct{ Fn *ssa.Function }

type Tuple []Val

type Iter struct {
	id    int
	isMap bool
	isStr bool
	coll  *Term // map ref or string
	T     types.Type
}

type IterState struct {
	pos  *Term // string iterators: byte position
	done *Term // map iterators: (Array K Bool)
	dom0 *Term // domain snapshot
	lastKey *Term
}

type Deferred struct {
	Fn   Val
	Args []Val
}

type Frame struct {
	id       int
	fn       *ssa.Function
	regs     map[ssa.Value]Val
	bind     []Val
	params   []*Term // entry values
	active   map[*ssa.BasicBlock]*LoopEntry
	defers   []Deferred
	cellsByA map[*ssa.Alloc]*Cell
	isTop    bool
	recvIface *Term
	callPos token.Pos // inlined frames: where the call is
}

type LoopEntry struct {
	dec     []*Term // decreases expressions' values at head
	trace   *Term   // the ghost trace at the head, this iteration
	ordinal int
	cells   map[*Cell]Val // local variables at the head, this iteration
}

type State struct {
	frames   []*Frame
	cells    map[*Cell]Val
	heap     map[string]*Term
	heap0    map[string]*Term
	assume   []string
	decls    []string
	ghost    map[string]*Term
	allocCtr *Term
	alloc0   *Term
	iters    map[int]*IterState
	panicking *Term // Iface value being propagated, nil if none
	ownPanic  bool  // the value was raised by a panic statement of the function under verification itself (not by a callee or by user code)
	trace    *Term
	trace0   *Term
	path     []string
	dead     bool
	owned    map[int]*OwnedState
	nbranch  int
	inDefer  int
	closures map[string]*Closure
	nonnil   map[string]bool
	once     map[string]bool
	loopTrace map[int]*Term // bottom frame: the ghost trace at the most recent visit of each loop head (startTrace in postconditions)
	views    map[string]bool // sequence terms that are re-sliced views of a slice that is still reachable (A-seq side condition)
	fullMod  map[string]bool // heap arrays written at objects that existed on entry
	fresh    map[string]bool // refs allocated on this path
}

type OwnedState struct {
	content *Term
	frozen  bool
	depth   int
}

type Owned struct {
	id  int
	off *Term
	n   *Term
	T   types.Type
}

func (st *State) top() *Frame { return st.frames[len(st.frames)-1] }

func (st *State) Clone() *State {
	n := &State{
		cells: make(map[*Cell]Val, len(st.cells)), heap: make(map[string]*Term, len(st.heap)), heap0: st.heap0,
		ghost: make(map[string]*Term, len(st.ghost)), allocCtr: st.allocCtr, alloc0: st.alloc0,
		iters: make(map[int]*IterState, len(st.iters)), panicking: st.panicking, ownPanic: st.ownPanic, trace: st.trace, trace0: st.trace0,
		owned: make(map[int]*OwnedState, len(st.owned)), nbranch: st.nbranch, inDefer: st.inDefer,
		closures: map[string]*Closure{}, nonnil: map[string]bool{}, once: map[string]bool{},
	}
	for k, v := range st.closures {
		n.closures[k] = v
	}
	for k, v := range st.nonnil {
		n.nonnil[k] = v
	}
	for k, v := range st.once {
		n.once[k] = v
	}
	n.fullMod = make(map[string]bool, len(st.fullMod))
	for k, v := range st.fullMod {
		n.fullMod[k] = v
	}
	n.loopTrace = make(map[int]*Term, len(st.loopTrace))
	for k, v := range st.loopTrace {
		n.loopTrace[k] = v
	}
	n.views = make(map[string]bool, len(st.views))
	for k, v := range st.views {
		n.views[k] = v
	}
	n.fresh = make(map[string]bool, len(st.fresh))
	for k, v := range st.fresh {
		n.fresh[k] = v
	}
	n.assume = append([]string(nil), st.assume...)
	n.decls = append([]string(nil), st.decls...)
	n.path = append([]string(nil), st.path...)
	for k, v := range st.cells {
		n.cells[k] = v
	}
	for k, v := range st.heap {
		n.heap[k] = v
	}
	for k, v := range st.ghost {
		n.ghost[k] = v
	}
	for k, v := range st.iters {
		c := *v
		n.iters[k] = &c
	}
	for k, v := range st.owned {
		c := *v
		n.owned[k] = &c
	}
	for _, f := range st.frames {
		nf := &Frame{id: f.id, fn: f.fn, bind: f.bind, params: f.params, isTop: f.isTop, recvIface: f.recvIface, callPos: f.callPos,
			regs: make(map[ssa.Value]Val, len(f.regs)), active: make(map[*ssa.BasicBlock]*LoopEntry, len(f.active)),
			cellsByA: make(map[*ssa.Alloc]*Cell, len(f.cellsByA))}
		for k, v := range f.regs {
			nf.regs[k] = v
		}
		for k, v := range f.active {
			nf.active[k] = v
		}
		for k, v := range f.cellsByA {
			nf.cellsByA[k] = v
		}
		nf.defers = append([]Deferred(nil), f.defers...)
		n.frames = append(n.frames, nf)
	}
	return n
}

// fresh names are numbered per prefix and restart with every function under verification, so that the text of a
// query depends on the function it comes from and not on what was verified before it
var freshCtr = map[string]int{}

func resetFresh() { freshCtr = map[string]int{} }

func (st *State) Fresh(prefix, sort string) *Term {
	p := sanitize(prefix)
	freshCtr[p]++
	name := fmt.Sprintf("%s$%d", p, freshCtr[p])
	st.decls = append(st.decls, fmt.Sprintf("(declare-const %s %s)", name, sort))
	return mk(sort, name)
}

func (st *State) Assume(t *Term) {
	if t == nil || t.S == "true" {
		return
	}
	if t.S == "false" {
		st.dead = true
	}
	st.assume = append(st.assume, t.S)
}

func (st *State) AssumeOnce(t *Term) {
	if st.once == nil {
		st.once = map[string]bool{}
	}
	if st.once[t.S] {
		return
	}
	st.once[t.S] = true
	st.Assume(t)
}

func (st *State) Note(s string) { st.path = append(st.path, s) }

// Heap access -------------------------------------------------------------

func (x *Exec) heapGet(st *State, name string) *Term {
	if t, ok := st.heap[name]; ok {
		return t
	}
	// first use on this path: the entry version
	t := x.heapEntry(st, name)
	st.heap[name] = t
	return t
}

func (x *Exec) heapEntry(st *State, name string) *Term {
	if t, ok := st.heap0[name]; ok {
		return t
	}
	t := x.reg.Global(name+"@0", x.reg.HeapSort(name))
	st.heap0[name] = t
	return t
}

func (x *Exec) heapSet(st *State, name string, t *Term) { st.heap[name] = t }

// heapStoreAt: write at index ref, remembering whether a pre-existing object was touched
func (x *Exec) heapStoreAt(st *State, name string, ref, v *Term) {
	h := x.heapGet(st, name)
	st.heap[name] = sto(h, ref, v)
	if !st.fresh[ref.S] {
		if st.fullMod == nil {
			st.fullMod = map[string]bool{}
		}
		st.fullMod[name] = true
	}
}

// heapHavoc: full = objects that existed before may have changed; otherwise only objects allocated since `since`
func (x *Exec) heapHavoc(st *State, name string, full bool, since *Term) {
	if _, ok := x.reg.heap[name]; !ok {
		return
	}
	old := x.heapGet(st, name) // make sure entry version is recorded
	nv := st.Fresh(strings.ReplaceAll(name, "@", "_"), x.reg.HeapSort(name))
	st.heap[name] = nv
	if full {
		if st.fullMod == nil {
			st.fullMod = map[string]bool{}
		}
		st.fullMod[name] = true
		return
	}
	es := x.reg.heap[name][1]
	st.Assume(mk("Bool", "(forall ((r Int)) (! (=> (<= r "+since.S+") (= (select "+nv.S+" r) (select "+old.S+" r))) :pattern ((select "+nv.S+" r))))"))
	_ = es
}

func sel(arr, idx *Term, elemSort string) *Term {
	return App(elemSort, "select", arr, idx)
}
func sto(arr, idx, v *Term) *Term {
	return App(arr.Sort, "store", arr, idx, v)
}

func (x *Exec) newRef(st *State, hint string) *Term {
	r := st.Fresh("ref_"+hint, "Int")
	st.Assume(Lt(st.allocCtr, r))
	st.allocCtr = r
	if st.fresh == nil {
		st.fresh = map[string]bool{}
	}
	st.fresh[r.S] = true
	return r
}
