package main

// Rename tolerance. Contracts name parameters and local variables of the function they annotate. A maintenance edit that
// only renames such a variable must not turn into an alarm, so the names a contract was written against are recorded
// (per function: the ordered list of declared variables with their types, `locals.baseline.json`, generated on the
// pinned tree with -emit-locals) and, when the current function declares the same variables under other names, the
// contract's identifiers are rewritten to the current names before anything is checked. The mapping is positional:
// the two declaration lists are aligned on their common (name, type) entries and, inside each gap, entries are paired
// when the gap has the same types in the same order, or when a type occurs exactly once on both sides of the gap.
// Nothing is mapped when that is ambiguous: the contract then fails closed as before (unknown identifier).

import (
	"encoding/json"
	"go/ast"
	"go/types"
	"os"
	"sort"

	"golang.org/x/tools/go/ssa"
)

type declVar struct {
	Name string `json:"n"`
	Type string `json:"t"`
}

// declaredVars lists the variables declared by fn (receiver, parameters, results, locals) in source order,
// not descending into nested function literals.
func (x *Exec) declaredVars(fn *ssa.Function) []declVar {
	syn := fn.Syntax()
	if syn == nil || fn.Pkg == nil {
		return nil
	}
	var info *types.Info
	for _, p := range x.pkgs {
		if p.Types == fn.Pkg.Pkg {
			info = p.TypesInfo
		}
	}
	if info == nil {
		return nil
	}
	qual := types.RelativeTo(fn.Pkg.Pkg)
	var out []declVar
	add := func(id *ast.Ident) {
		if id == nil || id.Name == "_" {
			return
		}
		if v, ok := info.Defs[id].(*types.Var); ok && v != nil {
			out = append(out, declVar{id.Name, types.TypeString(v.Type(), qual)})
		}
	}
	fields := func(fl *ast.FieldList) {
		if fl == nil {
			return
		}
		for _, f := range fl.List {
			for _, n := range f.Names {
				add(n)
			}
		}
	}
	var body *ast.BlockStmt
	switch s := syn.(type) {
	case *ast.FuncDecl:
		fields(s.Recv)
		fields(s.Type.Params)
		fields(s.Type.Results)
		body = s.Body
	case *ast.FuncLit:
		fields(s.Type.Params)
		fields(s.Type.Results)
		body = s.Body
	}
	if body != nil {
		ast.Inspect(body, func(n ast.Node) bool {
			switch n := n.(type) {
			case *ast.FuncLit:
				return false
			case *ast.Ident:
				add(n)
			case *ast.TypeSwitchStmt:
				// `switch x := v.(type)`: x is declared once per clause (implicit objects); record it once by name
				if as, ok := n.Assign.(*ast.AssignStmt); ok && len(as.Lhs) == 1 {
					if id, ok := as.Lhs[0].(*ast.Ident); ok && id.Name != "_" {
						out = append(out, declVar{id.Name, "<typeswitch>"})
					}
				}
			}
			return true
		})
	}
	return out
}

func (x *Exec) contractFuncKeys() []string {
	var keys []string
	for k := range x.cs.Funcs {
		if _, ok := x.allFuncs[k]; ok {
			keys = append(keys, k)
		}
	}
	sort.Strings(keys)
	return keys
}

func (x *Exec) emitLocals(path string) error {
	out := map[string][]declVar{}
	for _, k := range x.contractFuncKeys() {
		out[k] = x.declaredVars(x.allFuncs[k])
	}
	b, err := json.MarshalIndent(out, "", " ")
	if err != nil {
		return err
	}
	return os.WriteFile(path, append(b, '\n'), 0o644)
}

// alignRenames maps baseline names to current names.
func alignRenames(base, cur []declVar) map[string]string {
	n, m := len(base), len(cur)
	// LCS on exact (name, type)
	L := make([][]int, n+1)
	for i := range L {
		L[i] = make([]int, m+1)
	}
	for i := n - 1; i >= 0; i-- {
		for j := m - 1; j >= 0; j-- {
			if base[i] == cur[j] {
				L[i][j] = L[i+1][j+1] + 1
			} else if L[i+1][j] >= L[i][j+1] {
				L[i][j] = L[i+1][j]
			} else {
				L[i][j] = L[i][j+1]
			}
		}
	}
	ren := map[string]string{}
	conflict := map[string]bool{}
	put := func(a, b string) {
		if a == b {
			return
		}
		if old, ok := ren[a]; ok && old != b {
			conflict[a] = true
		}
		ren[a] = b
	}
	gap := func(bg, cg []declVar) {
		if len(bg) == 0 || len(cg) == 0 {
			return
		}
		if len(bg) == len(cg) {
			same := true
			for i := range bg {
				if bg[i].Type != cg[i].Type {
					same = false
				}
			}
			if same {
				for i := range bg {
					put(bg[i].Name, cg[i].Name)
				}
				return
			}
		}
		cnt := func(g []declVar, t string) (c int, name string) {
			for _, v := range g {
				if v.Type == t {
					c++
					name = v.Name
				}
			}
			return
		}
		for _, b := range bg {
			cb, _ := cnt(bg, b.Type)
			cc, name := cnt(cg, b.Type)
			if cb == 1 && cc == 1 {
				put(b.Name, name)
			}
		}
	}
	i, j := 0, 0
	gi, gj := 0, 0
	for i < n && j < m {
		switch {
		case base[i] == cur[j]:
			gap(base[gi:i], cur[gj:j])
			i++
			j++
			gi, gj = i, j
		case L[i+1][j] >= L[i][j+1]:
			i++
		default:
			j++
		}
	}
	gap(base[gi:], cur[gj:])
	// a baseline name that is still declared (with whatever type) in the current function is never redirected
	for a := range ren {
		if conflict[a] {
			delete(ren, a)
		}
	}
	return ren
}

func renameExpr(e *Expr, ren map[string]string, bound map[string]int) {
	if e == nil {
		return
	}
	if e.Op == "id" && bound[e.Name] == 0 {
		if nn, ok := ren[e.Name]; ok {
			e.Name = nn
		} else if k := len(e.Name) - 1; k > 0 && e.Name[k] == '0' {
			if nn, ok := ren[e.Name[:k]]; ok {
				e.Name = nn + "0"
			}
		}
	}
	for _, b := range e.Binders {
		bound[b.Name]++
	}
	for _, a := range e.Args {
		renameExpr(a, ren, bound)
	}
	for _, tg := range e.Trig {
		for _, t := range tg {
			renameExpr(t, ren, bound)
		}
	}
	for _, b := range e.Binders {
		bound[b.Name]--
	}
}

// applyRenames rewrites the identifiers of function contracts whose function declares its variables under new names.
func (x *Exec) applyRenames(baselinePath string) {
	b, err := os.ReadFile(baselinePath)
	if err != nil {
		return
	}
	base := map[string][]declVar{}
	if json.Unmarshal(b, &base) != nil {
		return
	}
	x.renamed = map[string]map[string]string{}
	rens := map[string]map[string]string{}
	for _, k := range x.contractFuncKeys() {
		bl, ok := base[k]
		if !ok {
			continue
		}
		cur := x.declaredVars(x.allFuncs[k])
		ren := alignRenames(bl, cur)
		// never redirect a name that the current function still declares
		for _, v := range cur {
			delete(ren, v.Name)
		}
		if len(ren) > 0 {
			rens[k] = ren
		}
	}
	for _, k := range x.contractFuncKeys() {
		ren := map[string]string{}
		// a closure's contract may mention captured variables of its enclosing functions
		for fn := x.allFuncs[k]; fn != nil; fn = fn.Parent() {
			for a, b := range rens[x.fnKey[fn]] {
				if _, ok := ren[a]; !ok {
					ren[a] = b
				}
			}
		}
		if len(ren) == 0 {
			continue
		}
		x.renamed[k] = ren
		c := x.cs.Funcs[k]
		lets := map[string]int{}
		for _, l := range c.Lets {
			lets[l.Name]++
		}
		do := func(cls []Clause) {
			for i := range cls {
				renameExpr(cls[i].E, ren, lets)
			}
		}
		do(c.Requires)
		do(c.Ensures)
		do(c.Panics)
		do(c.Exits)
		do(c.Decr)
		do(c.Lets)
		for _, ls := range c.Loops {
			do(ls.Invariants)
			do(ls.Decreases)
			do(ls.Steps)
		}
	}
}
