package main

// SMT term layer: sorts, registry of declarations, prelude generation.

import (
	"hash/fnv"
	"fmt"
	"go/types"
	"sort"
	"strings"
)

type Term struct {
	S    string
	Sort string
	T    types.Type // Go type when known (needed for field selection), may be nil
}

func (t *Term) String() string { return t.S }

func mk(sort, s string) *Term { return &Term{S: s, Sort: sort} }
func mkT(sort, s string, t types.Type) *Term {
	return &Term{S: s, Sort: sort, T: t}
}

func App(sort, f string, args ...*Term) *Term {
	if len(args) == 0 {
		return mk(sort, f)
	}
	var sb strings.Builder
	sb.WriteString("(")
	sb.WriteString(f)
	for _, a := range args {
		sb.WriteString(" ")
		sb.WriteString(a.S)
	}
	sb.WriteString(")")
	return mk(sort, sb.String())
}

func IntLit(n int64) *Term {
	if n < 0 {
		return mk("Int", fmt.Sprintf("(- %d)", -n))
	}
	return mk("Int", fmt.Sprint(n))
}
func BoolLit(b bool) *Term {
	if b {
		return mk("Bool", "true")
	}
	return mk("Bool", "false")
}

var tTrue = BoolLit(true)
var tFalse = BoolLit(false)

func And(ts ...*Term) *Term {
	var xs []*Term
	for _, t := range ts {
		if t == nil || t.S == "true" {
			continue
		}
		if t.S == "false" {
			return tFalse
		}
		xs = append(xs, t)
	}
	if len(xs) == 0 {
		return tTrue
	}
	if len(xs) == 1 {
		return xs[0]
	}
	return App("Bool", "and", xs...)
}
func Or(ts ...*Term) *Term {
	var xs []*Term
	for _, t := range ts {
		if t.S == "false" {
			continue
		}
		if t.S == "true" {
			return tTrue
		}
		xs = append(xs, t)
	}
	if len(xs) == 0 {
		return tFalse
	}
	if len(xs) == 1 {
		return xs[0]
	}
	return App("Bool", "or", xs...)
}
func Not(t *Term) *Term {
	if t.S == "true" {
		return tFalse
	}
	if t.S == "false" {
		return tTrue
	}
	if strings.HasPrefix(t.S, "(not ") {
		return mk("Bool", t.S[5:len(t.S)-1])
	}
	return App("Bool", "not", t)
}
func Implies(a, b *Term) *Term {
	if a.S == "true" {
		return b
	}
	if a.S == "false" || b.S == "true" {
		return tTrue
	}
	return App("Bool", "=>", a, b)
}
func Eq(a, b *Term) *Term {
	if a.S == b.S {
		return tTrue
	}
	return App("Bool", "=", a, b)
}
func Ite(c, a, b *Term) *Term {
	if c.S == "true" {
		return a
	}
	if c.S == "false" {
		return b
	}
	r := App(a.Sort, "ite", c, a, b)
	r.T = a.T
	return r
}
func Add(a, b *Term) *Term {
	return App("Int", "+", a, b)
}
func Sub(a, b *Term) *Term { return App("Int", "-", a, b) }
func Le(a, b *Term) *Term  { return App("Bool", "<=", a, b) }
func Lt(a, b *Term) *Term  { return App("Bool", "<", a, b) }

// ---------------------------------------------------------------------------

type StructInfo struct {
	Sort   string
	Fields []FieldInfo
	T      *types.Struct
	Named  types.Type
}
type FieldInfo struct {
	Name string
	Sort string
	T    types.Type
}

type FuncDecl struct {
	Name string
	Args []string
	Ret  string
	Def  string   // optional define-fun body (with Params)
	Par  []string // parameter names for Def
	Rec  bool
	Opaque bool
}

type Reg struct {
	seqElems  map[string]bool
	seqOrder  []string
	cardOrd   []string // key sorts for which len(map) is used
	structs   map[string]*StructInfo
	structOrd []string
	structByT map[string]string // types string -> sort
	heap      map[string][2]string
	heapOrd   []string
	lits      map[string]string
	litOrd    []string
	tags      map[string]int
	tagTypes  map[int]types.Type
	tagOrd    []string
	funcs     map[string]*FuncDecl
	funcOrd   []string
	axioms    []string // user / extern axioms (already SMT)
	axiomSet  map[string]bool
	boxSorts  map[string]bool
	boxOrd    []string
	ifaces    map[string]*types.Interface // impl predicates
	ifaceOrd  []string
	anon      int
	globals   map[string]string // global const name -> sort
	globalOrd []string
}

func NewReg() *Reg {
	return &Reg{
		seqElems: map[string]bool{}, structs: map[string]*StructInfo{}, structByT: map[string]string{},
		heap: map[string][2]string{}, lits: map[string]string{}, tags: map[string]int{}, tagTypes: map[int]types.Type{},
		funcs: map[string]*FuncDecl{}, axiomSet: map[string]bool{}, boxSorts: map[string]bool{},
		ifaces: map[string]*types.Interface{}, globals: map[string]string{},
	}
}

func sanitize(s string) string {
	var sb strings.Builder
	for _, c := range s {
		switch {
		case c >= 'a' && c <= 'z', c >= 'A' && c <= 'Z', c >= '0' && c <= '9', c == '_':
			sb.WriteRune(c)
		case c == '*':
			sb.WriteString("P")
		case c == '[' || c == ']':
			sb.WriteString("L")
		default:
			sb.WriteString("_")
		}
	}
	return sb.String()
}

func shortTypeName(t types.Type) string {
	return types.TypeString(t, func(p *types.Package) string { return p.Name() })
}

// SortOf maps a Go type to its SMT sort name, registering what is needed.
func (r *Reg) SortOf(t types.Type) string {
	switch u := t.(type) {
	case *types.Named:
		if st, ok := u.Underlying().(*types.Struct); ok {
			return r.structSort(u, st)
		}
		return r.SortOf(u.Underlying())
	case *types.Alias:
		return r.SortOf(types.Unalias(u))
	case *types.Basic:
		switch {
		case u.Info()&types.IsBoolean != 0:
			return "Bool"
		case u.Info()&types.IsInteger != 0:
			return "Int"
		case u.Info()&types.IsString != 0:
			return "Str"
		case u.Info()&types.IsFloat != 0:
			return "F64"
		case u.Kind() == types.UntypedNil:
			return "Int"
		case u.Kind() == types.UnsafePointer:
			return "Int"
		}
		return "Int"
	case *types.Pointer, *types.Map, *types.Chan, *types.Signature:
		return "Int"
	case *types.Slice:
		return r.SeqSort(r.SortOf(u.Elem()))
	case *types.Array:
		return r.SeqSort(r.SortOf(u.Elem()))
	case *types.Interface:
		return "Iface"
	case *types.Struct:
		return r.structSort(nil, u)
	case *types.Tuple:
		return "Tuple"
	}
	return "Int"
}

func (r *Reg) SeqSort(elem string) string {
	if !r.seqElems[elem] {
		r.seqElems[elem] = true
		r.seqOrder = append(r.seqOrder, elem)
	}
	return "Seq_" + elem
}

func seqElem(sort string) string { return strings.TrimPrefix(sort, "Seq_") }
func isSeq(sort string) bool   { return strings.HasPrefix(sort, "Seq_") }

func (r *Reg) structSort(named *types.Named, st *types.Struct) string {
	var key string
	if named != nil {
		key = named.String()
	} else {
		key = st.String()
	}
	if s, ok := r.structByT[key]; ok {
		return s
	}
	var name string
	if named != nil {
		name = "S_" + sanitize(shortTypeName(named))
	} else {
		r.anon++
		name = fmt.Sprintf("S_anon%d", r.anon)
	}
	for r.structs[name] != nil {
		name += "x"
	}
	r.structByT[key] = name
	si := &StructInfo{Sort: name, T: st}
	if named != nil {
		si.Named = named
	}
	r.structs[name] = si // before recursion
	for i := 0; i < st.NumFields(); i++ {
		f := st.Field(i)
		si.Fields = append(si.Fields, FieldInfo{Name: f.Name(), Sort: r.SortOf(f.Type()), T: f.Type()})
	}
	r.structOrd = append(r.structOrd, name)
	return name
}

func (r *Reg) StructInfoOf(t types.Type) *StructInfo {
	s := r.SortOf(t)
	return r.structs[s]
}

// heap array for a struct field: H_<struct>_<field> : Array Int fieldSort
func (r *Reg) FieldArray(si *StructInfo, idx int) (name string, elem string) {
	name = "H" + si.Sort[1:] + "_" + si.Fields[idx].Name
	elem = si.Fields[idx].Sort
	r.declHeap(name, "Int", elem)
	return
}

func (r *Reg) BoxArray(sort string) string {
	name := "B_" + sort
	r.declHeap(name, "Int", sort)
	return name
}

func (r *Reg) MapArrays(k, v string) (dom, val string) {
	dom = "MD_" + k + "_" + v
	val = "MV_" + k + "_" + v
	r.declHeap(dom, "Int", "(Array "+k+" Bool)")
	r.declHeap(val, "Int", "(Array "+k+" "+v+")")
	return
}

// MapCard registers the cardinality function of map domains with key sort k (len of a map) and returns its name.
func (r *Reg) MapCard(k string) string {
	for _, c := range r.cardOrd {
		if c == k {
			return "mapcard_" + sortId(k)
		}
	}
	r.cardOrd = append(r.cardOrd, k)
	return "mapcard_" + sortId(k)
}

func (r *Reg) declHeap(name, idx, elem string) {
	if _, ok := r.heap[name]; !ok {
		r.heap[name] = [2]string{idx, elem}
		r.heapOrd = append(r.heapOrd, name)
	}
}

// HeapNames: the registered heap arrays, by name
func (r *Reg) HeapNames() []string { return sortedStrings(r.heapOrd) }

func (r *Reg) HeapSort(name string) string {
	h := r.heap[name]
	return "(Array " + h[0] + " " + h[1] + ")"
}

func (r *Reg) StrLit(s string) *Term {
	if s == "" {
		return mk("Str", "sempty")
	}
	n, ok := r.lits[s]
	if !ok {
		h := fnv.New32a()
		h.Write([]byte(s))
		n = fmt.Sprintf("lit_%s_%08x", sanitize(trunc(s, 12)), h.Sum32())
		r.lits[s] = n
		r.litOrd = append(r.litOrd, s)
		r.sprintfAxiom(s, n)
	}
	return mk("Str", n)
}

// sprintfAxiom: a format made of literal text and %s verbs only, applied to strings, is their concatenation with the
// text (assumed of package fmt). Stated once per such literal; only relevant to queries that format with it.
func (r *Reg) sprintfAxiom(format, name string) {
	var parts []string // literal pieces; a verb sits between consecutive pieces
	cur := ""
	nverbs := 0
	for i := 0; i < len(format); i++ {
		if format[i] != '%' {
			cur += string(format[i])
			continue
		}
		if i+1 >= len(format) || format[i+1] != 's' {
			return
		}
		parts = append(parts, cur)
		cur = ""
		nverbs++
		i++
	}
	parts = append(parts, cur)
	if nverbs == 0 || nverbs > 4 {
		return
	}
	r.SeqSort("Iface")
	r.DeclFunc("fmt_sprintf", []string{"Str", "Seq_Iface"}, "Str")
	tag := r.Tag(types.Typ[types.String])
	var bs []string
	seq := ""
	var pieces []string
	for k := 0; k < nverbs; k++ {
		v := fmt.Sprintf("a%d", k)
		bs = append(bs, "("+v+" Str)")
		el := fmt.Sprintf("(one_Iface (iface %d %s))", tag, r.Box(mk("Str", v)).S)
		if seq == "" {
			seq = el
		} else {
			seq = "(cat_Iface " + seq + " " + el + ")"
		}
		if parts[k] != "" {
			pieces = append(pieces, r.StrLit(parts[k]).S)
		}
		pieces = append(pieces, v)
	}
	if parts[nverbs] != "" {
		pieces = append(pieces, r.StrLit(parts[nverbs]).S)
	}
	rhs := pieces[0]
	for _, p := range pieces[1:] {
		rhs = "(scat " + rhs + " " + p + ")"
	}
	lhs := "(fmt_sprintf " + name + " " + seq + ")"
	r.Axiom(fmt.Sprintf("(assert (forall (%s) (! (= %s %s) :pattern (%s))))", strings.Join(bs, " "), lhs, rhs, lhs))
}

func trunc(s string, n int) string {
	if len(s) > n {
		return s[:n]
	}
	return s
}

// type tags for interface dynamic types
func (r *Reg) Tag(t types.Type) int {
	key := t.String()
	if n, ok := r.tags[key]; ok {
		return n
	}
	n := len(r.tags) + 1
	r.tags[key] = n
	r.tagTypes[n] = t
	r.tagOrd = append(r.tagOrd, key)
	return n
}

const firstUnknownTag = 1000

func (r *Reg) ImplPred(it *types.Interface, name string) string {
	n := "impl_" + sanitize(name)
	if _, ok := r.ifaces[n]; !ok {
		r.ifaces[n] = it
		r.ifaceOrd = append(r.ifaceOrd, n)
	}
	return n
}

func (r *Reg) DeclFunc(name string, args []string, ret string) {
	if _, ok := r.funcs[name]; !ok {
		r.funcs[name] = &FuncDecl{Name: name, Args: args, Ret: ret}
		r.funcOrd = append(r.funcOrd, name)
	}
}

func (r *Reg) DefFunc(fd *FuncDecl) {
	if _, ok := r.funcs[fd.Name]; !ok {
		r.funcOrd = append(r.funcOrd, fd.Name)
	}
	r.funcs[fd.Name] = fd
}

func (r *Reg) Axiom(s string) {
	if !r.axiomSet[s] {
		r.axiomSet[s] = true
		r.axioms = append(r.axioms, s)
	}
}

func (r *Reg) Global(name, sort string) *Term {
	if _, ok := r.globals[name]; !ok {
		r.globals[name] = sort
		r.globalOrd = append(r.globalOrd, name)
	}
	return mk(sort, name)
}

// boxing of non-Int payloads inside interface values
func (r *Reg) Box(t *Term) *Term {
	switch t.Sort {
	case "Int":
		return t
	case "Bool":
		return Ite(t, IntLit(1), IntLit(0))
	}
	if !r.boxSorts[t.Sort] {
		r.boxSorts[t.Sort] = true
		r.boxOrd = append(r.boxOrd, t.Sort)
	}
	return App("Int", "box_"+sortId(t.Sort), t)
}
func (r *Reg) Unbox(t *Term, sort string) *Term {
	switch sort {
	case "Int":
		return t
	case "Bool":
		return Not(Eq(t, IntLit(0)))
	}
	if !r.boxSorts[sort] {
		r.boxSorts[sort] = true
		r.boxOrd = append(r.boxOrd, sort)
	}
	return App(sort, "unbox_"+sortId(sort), t)
}

func sortId(s string) string { return sanitize(s) }

// ---------------------------------------------------------------------------
// Prelude

const strTheory = `
(declare-sort Str 0)
(declare-sort F64 0)
(declare-fun slen (Str) Int)
(declare-fun sat (Str Int) Int)
(declare-fun ssub (Str Int Int) Str)
(declare-fun scat (Str Str) Str)
(declare-const sempty Str)
(declare-fun str_eq (Str Str) Bool)
(assert (forall ((s Str)) (! (>= (slen s) 0) :pattern ((slen s)))))
(assert (= (slen sempty) 0))
(assert (forall ((s Str)) (! (=> (= (slen s) 0) (= s sempty)) :pattern ((slen s)))))
(assert (forall ((s Str) (i Int)) (! (and (<= 0 (sat s i)) (< (sat s i) 256)) :pattern ((sat s i)))))
(assert (forall ((s Str) (a Int) (b Int)) (! (=> (and (<= 0 a) (<= a b) (<= b (slen s))) (= (slen (ssub s a b)) (- b a))) :pattern ((ssub s a b)))))
(assert (forall ((s Str) (a Int) (b Int) (i Int)) (! (=> (and (<= 0 a) (<= a b) (<= b (slen s)) (<= 0 i) (< i (- b a))) (= (sat (ssub s a b) i) (sat s (+ a i)))) :pattern ((sat (ssub s a b) i)))))
(assert (forall ((s Str)) (! (= (ssub s 0 (slen s)) s) :pattern ((ssub s 0 (slen s))))))
(assert (forall ((s Str) (a Int) (b Int) (c Int) (d Int)) (! (=> (and (<= 0 a) (<= a b) (<= b (slen s)) (<= 0 c) (<= c d) (<= d (- b a))) (= (ssub (ssub s a b) c d) (ssub s (+ a c) (+ a d)))) :pattern ((ssub (ssub s a b) c d)))))
(assert (forall ((a Str) (b Str)) (! (= (slen (scat a b)) (+ (slen a) (slen b))) :pattern ((scat a b)))))
(assert (forall ((a Str) (b Str) (i Int)) (! (=> (and (<= 0 i) (< i (+ (slen a) (slen b)))) (= (sat (scat a b) i) (ite (< i (slen a)) (sat a i) (sat b (- i (slen a)))))) :pattern ((sat (scat a b) i)))))
(assert (forall ((a Str)) (! (= (scat a sempty) a) :pattern ((scat a sempty)))))
(assert (forall ((a Str)) (! (= (scat sempty a) a) :pattern ((scat sempty a)))))
(assert (forall ((a Str) (b Str)) (! (= (str_eq a b) (and (= (slen a) (slen b)) (forall ((i Int)) (! (=> (and (<= 0 i) (< i (slen a))) (= (sat a i) (sat b i))) :pattern ((sat a i)) :pattern ((sat b i)))))) :pattern ((str_eq a b)))))
(assert (forall ((a Str) (b Str)) (! (=> (str_eq a b) (= a b)) :pattern ((str_eq a b)))))
(declare-datatypes ((Iface 0)) (((iface (itag Int) (ival Int)))))
(define-fun inil () Iface (iface 0 0))
(declare-datatypes ((Fuel 0)) (((FZ) (FS (fpred Fuel)))))
`

// seqTheoryFor performs a token-precise instantiation of the sequence theory.
func seqTheoryFor(e string) string {
	tmpl := seqTemplate
	id := sortId(e)
	tmpl = strings.ReplaceAll(tmpl, "@S", "Seq_"+id)
	tmpl = strings.ReplaceAll(tmpl, "@E", e)
	tmpl = strings.ReplaceAll(tmpl, "@", id)
	return tmpl
}

const seqTemplate = `
(declare-sort @S 0)
(declare-fun len_@ (@S) Int)
(declare-fun at_@ (@S Int) @E)
(declare-const nil_@ @S)
(declare-fun sub_@ (@S Int Int) @S)
(declare-fun cat_@ (@S @S) @S)
(declare-fun one_@ (@E) @S)
(declare-fun upd_@ (@S Int @E) @S)
(declare-fun seq_eq_@ (@S @S) Bool)
(assert (forall ((s @S)) (! (>= (len_@ s) 0) :pattern ((len_@ s)))))
(assert (= (len_@ nil_@) 0))
(assert (forall ((s @S) (a Int) (b Int)) (! (=> (and (<= 0 a) (<= a b) (<= b (len_@ s))) (= (len_@ (sub_@ s a b)) (- b a))) :pattern ((sub_@ s a b)))))
(assert (forall ((s @S) (a Int) (b Int) (i Int)) (! (=> (and (<= 0 a) (<= a b) (<= b (len_@ s)) (<= 0 i) (< i (- b a))) (= (at_@ (sub_@ s a b) i) (at_@ s (+ a i)))) :pattern ((at_@ (sub_@ s a b) i)))))
(assert (forall ((s @S)) (! (= (sub_@ s 0 (len_@ s)) s) :pattern ((sub_@ s 0 (len_@ s))))))
(assert (forall ((s @S) (a Int) (b Int) (c Int) (d Int)) (! (=> (and (<= 0 a) (<= a b) (<= b (len_@ s)) (<= 0 c) (<= c d) (<= d (- b a))) (= (sub_@ (sub_@ s a b) c d) (sub_@ s (+ a c) (+ a d)))) :pattern ((sub_@ (sub_@ s a b) c d)))))
(assert (forall ((a @S) (b @S)) (! (= (len_@ (cat_@ a b)) (+ (len_@ a) (len_@ b))) :pattern ((cat_@ a b)))))
(assert (forall ((a @S) (b @S) (i Int)) (! (=> (and (<= 0 i) (< i (+ (len_@ a) (len_@ b)))) (= (at_@ (cat_@ a b) i) (ite (< i (len_@ a)) (at_@ a i) (at_@ b (- i (len_@ a)))))) :pattern ((at_@ (cat_@ a b) i)))))
(assert (forall ((a @S)) (! (= (cat_@ a nil_@) a) :pattern ((cat_@ a nil_@)))))
(assert (forall ((a @S)) (! (= (cat_@ nil_@ a) a) :pattern ((cat_@ nil_@ a)))))
(assert (forall ((x @E)) (! (and (= (len_@ (one_@ x)) 1) (= (at_@ (one_@ x) 0) x)) :pattern ((one_@ x)))))
(assert (forall ((s @S) (i Int) (x @E)) (! (= (len_@ (upd_@ s i x)) (len_@ s)) :pattern ((upd_@ s i x)))))
(assert (forall ((s @S) (i Int) (x @E) (j Int)) (! (=> (and (<= 0 i) (< i (len_@ s))) (= (at_@ (upd_@ s i x) j) (ite (= j i) x (at_@ s j)))) :pattern ((at_@ (upd_@ s i x) j)))))
(assert (forall ((a @S) (b @S)) (! (= (seq_eq_@ a b) (and (= (len_@ a) (len_@ b)) (forall ((i Int)) (! (=> (and (<= 0 i) (< i (len_@ a))) (= (at_@ a i) (at_@ b i))) :pattern ((at_@ a i)) :pattern ((at_@ b i)))))) :pattern ((seq_eq_@ a b)))))
(assert (forall ((a @S) (b @S)) (! (=> (seq_eq_@ a b) (= a b)) :pattern ((seq_eq_@ a b)))))
`

// order element sorts so that nested sequences come after their elements
func (r *Reg) orderedSeqElems() []string {
	done := map[string]bool{}
	var out []string
	var visit func(e string)
	visit = func(e string) {
		if done[e] {
			return
		}
		done[e] = true
		if isSeq(e) {
			visit(seqElem(e))
		}
		out = append(out, e)
	}
	for _, e := range r.seqOrder {
		visit(e)
	}
	return out
}

func (r *Reg) Prelude() string {
	var sb strings.Builder
	sb.WriteString(strTheory)
	// struct datatypes and sequences may depend on each other: emit in dependency order
	emittedSeq := map[string]bool{}
	emittedStruct := map[string]bool{}
	var emitSort func(s string)
	emittedEv := false
	emitSort = func(s string) {
		if s == "Ev" {
			if !emittedEv {
				emittedEv = true
				sb.WriteString("(declare-datatypes ((Ev 0)) (((ev (ekind Int) (ea Int) (eb Int) (es Str)))))\n")
			}
			return
		}
		if isSeq(s) {
			if emittedSeq[s] {
				return
			}
			emittedSeq[s] = true
			e := r.seqElemSortById(s)
			emitSort(e)
			sb.WriteString(seqTheoryFor(e))
			if e == "Ev" {
				sb.WriteString("(define-fun tr_prefix ((a Seq_Ev) (b Seq_Ev)) Bool (and (<= (len_Ev a) (len_Ev b)) (forall ((i Int)) (! (=> (and (<= 0 i) (< i (len_Ev a))) (= (at_Ev b i) (at_Ev a i))) :pattern ((at_Ev b i))))))\n")
			}
			return
		}
		if si, ok := r.structs[s]; ok {
			if emittedStruct[s] {
				return
			}
			emittedStruct[s] = true
			for _, f := range si.Fields {
				emitSort(f.Sort)
			}
			fmt.Fprintf(&sb, "(declare-datatypes ((%s 0)) (((mk_%s", s, s)
			for _, f := range si.Fields {
				fmt.Fprintf(&sb, " (%s_%s %s)", s, f.Name, f.Sort)
			}
			if len(si.Fields) == 0 {
				// nullary constructor
			}
			sb.WriteString("))))\n")
		}
	}
	for _, e := range sortedStrings(r.seqOrder) {
		emitSort("Seq_" + sortId(e))
	}
	for _, s := range sortedStrings(r.structOrd) {
		emitSort(s)
	}
	// cardinality of map domains (len of a map): non-negative, zero exactly for the empty domain, +1 for a new key
	for _, k := range sortedStrings(r.cardOrd) {
		emitSort(k)
		id := sortId(k)
		fmt.Fprintf(&sb, "(declare-fun mapcard_%s ((Array %s Bool)) Int)\n(declare-fun mapwit_%s ((Array %s Bool)) %s)\n", id, k, id, k, k)
		fmt.Fprintf(&sb, "(assert (forall ((d (Array %s Bool))) (! (and (>= (mapcard_%s d) 0) (=> (> (mapcard_%s d) 0) (select d (mapwit_%s d)))) :pattern ((mapcard_%s d)))))\n", k, id, id, id, id)
		fmt.Fprintf(&sb, "(assert (forall ((d (Array %s Bool)) (k %s)) (! (=> (select d k) (> (mapcard_%s d) 0)) :pattern ((select d k) (mapcard_%s d)))))\n", k, k, id, id)
		fmt.Fprintf(&sb, "(assert (forall ((d (Array %s Bool)) (k %s)) (! (= (mapcard_%s (store d k true)) (+ (mapcard_%s d) (ite (select d k) 0 1))) :pattern ((mapcard_%s (store d k true))))))\n", k, k, id, id, id)
	}
	// box functions
	for _, s := range sortedStrings(r.boxOrd) {
		emitSort(s)
		id := sortId(s)
		fmt.Fprintf(&sb, "(declare-fun box_%s (%s) Int)\n(declare-fun unbox_%s (Int) %s)\n", id, s, id, s)
		fmt.Fprintf(&sb, "(assert (forall ((x %s)) (! (= (unbox_%s (box_%s x)) x) :pattern ((box_%s x)))))\n", s, id, id, id)
	}
	// string literals
	for _, s := range sortedStrings(r.litOrd) {
		n := r.lits[s]
		fmt.Fprintf(&sb, "(declare-const %s Str)\n(assert (= (slen %s) %d))\n", n, n, len(s))
		for i := 0; i < len(s); i++ {
			fmt.Fprintf(&sb, "(assert (= (sat %s %d) %d))\n", n, i, s[i])
		}
	}
	// interface implementation predicates
	for _, n := range sortedStrings(r.ifaceOrd) {
		fmt.Fprintf(&sb, "(declare-fun %s (Int) Bool)\n", n)
		it := r.ifaces[n]
		var keys []string
		for k := range r.tags {
			keys = append(keys, k)
		}
		sort.Strings(keys)
		for _, k := range keys {
			tg := r.tags[k]
			impl := types.Implements(r.tagTypes[tg], it)
			fmt.Fprintf(&sb, "(assert (= (%s %d) %v))\n", n, tg, impl)
		}
		fmt.Fprintf(&sb, "(assert (not (%s 0)))\n", n)
	}
	for _, n := range sortedStrings(r.globalOrd) {
		fmt.Fprintf(&sb, "(declare-const %s %s)\n", n, r.globals[n])
	}
	funcOrd := r.canonicalFuncOrder()
	for _, n := range funcOrd {
		fd := r.funcs[n]
		if fd.Def != "" && !fd.Rec && !fd.Opaque {
			fmt.Fprintf(&sb, "(define-fun %s (", fd.Name)
			for i, a := range fd.Args {
				fmt.Fprintf(&sb, "(%s %s)", fd.Par[i], a)
			}
			fmt.Fprintf(&sb, ") %s %s)\n", fd.Ret, fd.Def)
		} else if fd.Rec {
			fmt.Fprintf(&sb, "(declare-fun %s (Fuel %s) %s)\n", fd.Name, strings.Join(fd.Args, " "), fd.Ret)
		} else {
			fmt.Fprintf(&sb, "(declare-fun %s (%s) %s)\n", fd.Name, strings.Join(fd.Args, " "), fd.Ret)
		}
	}
	for _, n := range funcOrd {
		fd := r.funcs[n]
		if fd.Def != "" && fd.Rec {
			// fuel-indexed unfolding: f(FS(n), x) = body[f(n, .)] and f(FS(n), x) = f(n, x)
			bs := []string{"(fuel_n Fuel)"}
			var as []string
			for i, a := range fd.Args {
				bs = append(bs, fmt.Sprintf("(%s %s)", fd.Par[i], a))
				as = append(as, fd.Par[i])
			}
			app := "(" + fd.Name + " (FS fuel_n) " + strings.Join(as, " ") + ")"
			app0 := "(" + fd.Name + " fuel_n " + strings.Join(as, " ") + ")"
			fmt.Fprintf(&sb, "(assert (forall (%s) (! (= %s %s) :pattern (%s))))\n", strings.Join(bs, " "), app, fd.Def, app)
			fmt.Fprintf(&sb, "(assert (forall (%s) (! (= %s %s) :pattern (%s))))\n", strings.Join(bs, " "), app, app0, app)
		}
	}
	for _, a := range sortedStrings(r.axioms) {
		sb.WriteString(a)
		sb.WriteString("\n")
	}
	return sb.String()
}

// RevealAxiom: the definitional axiom of an opaque function
func (r *Reg) RevealAxiom(name string) string {
	fd := r.funcs[name]
	if fd == nil || !fd.Opaque || fd.Def == "" {
		return ""
	}
	if fd.Rec {
		return ""
	}
	var bs, as []string
	for i, a := range fd.Args {
		bs = append(bs, fmt.Sprintf("(%s %s)", fd.Par[i], a))
		as = append(as, fd.Par[i])
	}
	if len(as) == 0 {
		return fmt.Sprintf("(assert (= %s %s))\n", fd.Name, fd.Def)
	}
	app := "(" + fd.Name + " " + strings.Join(as, " ") + ")"
	return fmt.Sprintf("(assert (forall (%s) (! (= %s %s) :pattern (%s))))\n", strings.Join(bs, " "), app, fd.Def, app)
}

// seqElemSortById: the registry stores element sorts by their real sort string; Seq sort ids are sanitized.
func (r *Reg) seqElemSortById(seqSort string) string {
	id := strings.TrimPrefix(seqSort, "Seq_")
	for _, e := range r.seqOrder {
		if sortId(e) == id {
			return e
		}
	}
	return id
}

func sortedStrings(xs []string) []string {
	out := append([]string(nil), xs...)
	sort.Strings(out)
	return out
}

// canonicalFuncOrder: uninterpreted, recursive and opaque functions first (they are only declared), by name; then the
// macro definitions in an order that respects their dependencies, by name among the ready ones. The order is a function
// of the set of registered functions, not of the order in which verification happened to need them.
func (r *Reg) canonicalFuncOrder() []string {
	var decls, defs []string
	for _, n := range r.funcOrd {
		fd := r.funcs[n]
		if fd.Def != "" && !fd.Rec && !fd.Opaque {
			defs = append(defs, n)
		} else {
			decls = append(decls, n)
		}
	}
	sort.Strings(decls)
	sort.Strings(defs)
	isDef := map[string]bool{}
	for _, n := range defs {
		isDef[n] = true
	}
	deps := map[string][]string{}
	for _, n := range defs {
		seen := map[string]bool{}
		for _, t := range smtTokens(r.funcs[n].Def) {
			if isDef[t] && t != n && !seen[t] {
				seen[t] = true
				deps[n] = append(deps[n], t)
			}
		}
	}
	out := decls
	done := map[string]bool{}
	for len(done) < len(defs) {
		progress := false
		for _, n := range defs {
			if done[n] {
				continue
			}
			ready := true
			for _, d := range deps[n] {
				if !done[d] {
					ready = false
				}
			}
			if ready {
				done[n] = true
				out = append(out, n)
				progress = true
			}
		}
		if !progress {
			for _, n := range defs {
				if !done[n] {
					done[n] = true
					out = append(out, n)
				}
			}
		}
	}
	return out
}
