package main

// Zero-annotation frame sweep (C20): assigns-clauses that hold of *every* function of the library, decided on the SSA
// of the real code (no solver needed: the obligations are syntactic).
//   frame/no-global-write/<f>   f contains no store whose address derives from a package-level variable
//   frame/global-reads/<f>      f reads no package-level variable outside the allowed set (streams, exit hook, sentinels)
//   frame/getenv-callers        os.Getenv is called only by values.SetFromEnv, which is called only by mkOpt and mkArg
//   frame/no-goroutines/<f>     f starts no goroutine and uses no channel or select (sequential subset)
//   frame/setbyuser-writer/<f>  only fsm.fillContainers stores through the pointer held in Container.ValueSetByUser
//   frame/cmd-field-writers/<f> each field of Cmd is assigned, inside the library, only by the functions whose job it is
//                               (Spec, fsm, parents: doInit; commands: Command; options: mkOpt; args: mkArg; the user-facing
//                               fields Action/Before/After/LongDesc/Hidden/ErrorHandling/desc/name/aliases/init: nobody);
//                               the composite literals of App and Command (a fresh object) are not assignments
//   frame/process-globals/<f>   no library function reads os.Args

import (
	"fmt"
	"go/types"
	"sort"
	"strings"

	"golang.org/x/tools/go/ssa"
)

// which library functions may assign which field of Cmd (outside the composite literal that creates the command)
var cmdFieldWriters = map[string]map[string]bool{
	"Spec":       {"mow.cli.(*Cmd).doInit": true},
	"fsm":        {"mow.cli.(*Cmd).doInit": true},
	"parents":    {"mow.cli.(*Cmd).doInit": true},
	"commands":   {"mow.cli.(*Cmd).Command": true},
	"options":    {"mow.cli.(*Cmd).mkOpt": true},
	"args":       {"mow.cli.(*Cmd).mkArg": true},
	"Action":     {"mow.cli.ActionCommand$1": true}, // the initialiser ActionCommand returns sets the action of the new command
	"optionsIdx": {},
	"argsIdx":    {},
}

var allowedGlobalReads = map[string]bool{
	"stdOut": true, "stdErr": true, "exiter": true, "errHelpRequested": true, "errVersionRequested": true,
}

func (x *Exec) frameSweep() {
	x.curFn = "sweep"
	x.curReveal = nil
	add := func(name string, ok bool, why string) {
		goal := "true"
		if !ok {
			goal = "false"
		}
		x.obls = append(x.obls, &Obligation{Func: "sweep", Kind: "frame", Name: name, Goal: goal, Src: why, Synt: true})
	}
	var keys []string
	for k := range x.allFuncs {
		keys = append(keys, k)
	}
	sort.Strings(keys)
	getenvCallers := map[string]bool{}
	setFromEnvCallers := map[string]bool{}
	// static callers of every library function (for the field-writer rule: an unexported helper extracted from an allowed
	// writer, and called by allowed writers only, writes on their behalf)
	callers := map[string]map[string]bool{}
	for _, k := range keys {
		fn := x.allFuncs[k]
		pkg := k[:strings.Index(k, "::")]
		if helperPkg(pkg) || fn.Blocks == nil {
			continue
		}
		name := shortPkg(pkg) + "." + k[strings.Index(k, "::")+2:]
		for _, b := range fn.Blocks {
			for _, in := range b.Instrs {
				if ci, ok := in.(ssa.CallInstruction); ok {
					if callee := ci.Common().StaticCallee(); callee != nil {
						if ck, ok := x.fnKey[callee]; ok {
							cn := shortPkg(ck[:strings.Index(ck, "::")]) + "." + ck[strings.Index(ck, "::")+2:]
							if callers[cn] == nil {
								callers[cn] = map[string]bool{}
							}
							callers[cn][name] = true
						}
					}
				}
			}
		}
	}
	var mayWrite func(field, name string, depth int) bool
	mayWrite = func(field, name string, depth int) bool {
		if cmdFieldWriters[field][name] {
			return true
		}
		base := name[strings.LastIndex(name, ".")+1:]
		if depth > 3 || base == "" || !(base[0] >= 'a' && base[0] <= 'z') || strings.Contains(base, "$") || len(callers[name]) == 0 {
			return false
		}
		for c := range callers[name] {
			if c != name && !mayWrite(field, c, depth+1) {
				return false
			}
		}
		return true
	}
	for _, k := range keys {
		fn := x.allFuncs[k]
		pkg := k[:strings.Index(k, "::")]
		if helperPkg(pkg) || fn.Blocks == nil {
			continue
		}
		name := shortPkg(pkg) + "." + k[strings.Index(k, "::")+2:]
		var writes, reads, conc, sbu, specw, procg []string
		for _, b := range fn.Blocks {
			for _, in := range b.Instrs {
				switch in := in.(type) {
				case *ssa.Store:
					if g, ok := rootOf(in.Addr).(*ssa.Global); ok {
						writes = append(writes, g.Name()+" at "+x.posStr(in.Pos()))
					}
					// an assignment to Cmd.Spec
					if fa, ok := in.Addr.(*ssa.FieldAddr); ok {
						if pt, ok := fa.X.Type().Underlying().(*types.Pointer); ok {
							if nt, ok := pt.Elem().(*types.Named); ok && nt.Obj().Name() == "Cmd" {
								if stt, ok := nt.Underlying().(*types.Struct); ok {
									fname := stt.Field(fa.Field).Name()
									_, fresh := rootOf(in.Addr).(*ssa.Alloc) // the composite literal of a new command
									if !fresh && !mayWrite(fname, name, 0) {
										specw = append(specw, "Cmd."+fname+" at "+x.posStr(in.Pos()))
									}
								}
							}
							// a spec error is built once, by the lexer or the parser, and reported as built: nobody edits its fields afterwards
							if nt, ok := pt.Elem().(*types.Named); ok && nt.Obj().Name() == "ParseError" && nt.Obj().Pkg() != nil && strings.HasSuffix(nt.Obj().Pkg().Path(), "/lexer") {
								if stt, ok := nt.Underlying().(*types.Struct); ok {
									if _, fresh := rootOf(in.Addr).(*ssa.Alloc); !fresh {
										specw = append(specw, "ParseError."+stt.Field(fa.Field).Name()+" at "+x.posStr(in.Pos()))
									}
								}
							}
						}
					}
					// a store through the pointer held in Container.ValueSetByUser
					if ld, ok := in.Addr.(*ssa.UnOp); ok {
						if fa, ok := ld.X.(*ssa.FieldAddr); ok {
							if pt, ok := fa.X.Type().Underlying().(*types.Pointer); ok {
								if stt, ok := pt.Elem().Underlying().(*types.Struct); ok && stt.Field(fa.Field).Name() == "ValueSetByUser" {
									sbu = append(sbu, x.posStr(in.Pos()))
								}
							}
						}
					}
				case *ssa.UnOp:
					if g, ok := rootOf(in.X).(*ssa.Global); ok && g.Pkg != nil && g.Pkg.Pkg.Path() == "os" && g.Name() == "Args" {
						procg = append(procg, "os.Args at "+x.posStr(in.Pos()))
					}
					if g, ok := rootOf(in.X).(*ssa.Global); ok && x.repoPkgs[g.Pkg.Pkg.Path()] {
						if !allowedGlobalReads[g.Name()] {
							reads = append(reads, g.Name()+" at "+x.posStr(in.Pos()))
						}
					}
				case *ssa.Go:
					conc = append(conc, "go statement at "+x.posStr(in.Pos()))
				case *ssa.Select:
					conc = append(conc, "select at "+x.posStr(in.Pos()))
				case *ssa.Send:
					conc = append(conc, "channel send at "+x.posStr(in.Pos()))
				case *ssa.MakeChan:
					conc = append(conc, "make(chan) at "+x.posStr(in.Pos()))
				}
				if ci, ok := in.(ssa.CallInstruction); ok {
					if callee := ci.Common().StaticCallee(); callee != nil {
						switch callee.String() {
						case "os.Getenv", "os.LookupEnv", "os.Environ", "os.Setenv", "os.Unsetenv":
							getenvCallers[name] = true
						}
						if strings.HasSuffix(callee.String(), "internal/values.SetFromEnv") {
							setFromEnvCallers[name] = true
						}
					}
				}
			}
		}
		add("no-global-write/"+name, len(writes) == 0, strings.Join(writes, "; "))
		add("global-reads/"+name, len(reads) == 0, strings.Join(reads, "; "))
		add("no-goroutines/"+name, len(conc) == 0, strings.Join(conc, "; "))
		add("setbyuser-writer/"+name, len(sbu) == 0 || name == "fsm.fillContainers", "writes *ValueSetByUser at "+strings.Join(sbu, "; "))
		add("cmd-field-writers/"+name, len(specw) == 0, "assigns "+strings.Join(specw, "; "))
		add("process-globals/"+name, len(procg) == 0, "reads "+strings.Join(procg, "; "))
	}
	okGetenv := len(getenvCallers) == 1 && getenvCallers["values.SetFromEnv"]
	okCallers := true
	for c := range setFromEnvCallers {
		if c != "mow.cli.(*Cmd).mkOpt" && c != "mow.cli.(*Cmd).mkArg" {
			okCallers = false
		}
	}
	add("getenv-callers", okGetenv && okCallers && len(setFromEnvCallers) == 2,
		fmt.Sprintf("os environment accessed by %v; values.SetFromEnv called by %v", sortedKeys(getenvCallers), sortedKeys(setFromEnvCallers)))
}
