#!/bin/bash
# usage: run_seeded_fast.sh [seed-dir-name ...]   (default: all)
# Same as run_seeded.sh but on a scratch worktree of /repo (HEAD) under /tmp, so /repo stays free and the committed
# evidence is not overwritten. The worktree is removed at the end.
cd /verif
seeds=("$@"); [ ${#seeds[@]} -eq 0 ] && seeds=($(ls seeded | grep -E '^C[0-9]+-(r[0-9])?[abc]$'))
wt=/tmp/seedwt.$$
git -C /repo worktree add -q --detach $wt HEAD || exit 2
trap 'git -C /repo worktree remove --force $wt; git -C /repo worktree prune; rm -rf /tmp/seedev.$$' EXIT
export GOFLAGS=-mod=mod GOPROXY=off GOSUMDB=off GOTOOLCHAIN=local CGO_ENABLED=0 GOVC_FAILFAST=1 GOVC_FAILFAST_IGNORE=default-kept-on-failure
for sd in "${seeds[@]}"; do
  prop=${sd%%-*}
  git -C $wt apply /verif/seeded/$sd/patch.diff || { echo "$sd: patch does not apply"; continue; }
  out=$(bin/govc -repo $wt -prop $prop -tier quick -map obligations.map.json -evidence /tmp/seedev.$$ -known known_findings.json -replay /tmp/seedev.$$ 2>&1); rc=$?
  n=$(echo "$out" | grep -c '^VIOLATION')
  first=$(echo "$out" | grep '^FAILED' | awk '{print $2}' | head -1)
  [ $rc -ne 0 ] && echo "$sd: $prop:DETECTED($n:$first)" || echo "$sd: $prop:missed"
  git -C $wt checkout -q -- .; git -C $wt clean -fdq
done
