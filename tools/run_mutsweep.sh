#!/bin/bash
# Mutation sweep (development aid, not a registered check): (1) generate source-level mutants of the library, (2) keep
# those the existing test suite does not notice (built and tested through `go test -overlay`, /repo is never written),
# (3) run every contract check on each survivor in a scratch worktree. A survivor that raises no obligation is either an
# equivalent mutant or a hole in the contracts: the list is triaged by hand (seeded/MUTSWEEP.md).
# usage: run_mutsweep.sh suite | govc [ids...]
export GOFLAGS=-mod=mod GOPROXY=off GOSUMDB=off GOTOOLCHAIN=local CGO_ENABLED=0
M=/tmp/mut
case "$1" in
suite)
  rm -rf $M; /verif/bin/mutsweep /repo $M > $M.list
  one() { id=$1; f=$2; ov=$M/$id.json
    printf '{"Replace":{"/repo/%s":"%s/%s.go"}}' "$f" "$M" "$id" > $ov
    cd /repo
    if ! go build -overlay $ov ./... >/dev/null 2>&1; then echo "$id nobuild"; return; fi
    if go test -overlay $ov -vet=off -count=1 -timeout 60s ./... >/dev/null 2>&1; then echo "$id SURVIVES"; else echo "$id killed"; fi; }
  export -f one; export M
  cut -f1,2 $M.list | xargs -P 12 -L 1 bash -c 'one $0 $1' > $M.suite 2>&1
  grep -c SURVIVES $M.suite; grep -c killed $M.suite; grep -c nobuild $M.suite ;;
govc)
  shift
  ids=("$@"); [ ${#ids[@]} -eq 0 ] && ids=($(grep SURVIVES $M.suite | awk '{print $1}' | sort))
  wt=/tmp/mutwt.$$
  git -C /repo worktree add -q --detach $wt HEAD || exit 2
  trap 'git -C /repo worktree remove --force $wt; git -C /repo worktree prune' EXIT
  cd /verif
  for id in "${ids[@]}"; do
    f=$(awk -F'\t' -v i=$id '$1==i{print $2}' $M.list); info=$(awk -F'\t' -v i=$id '$1==i{print $2":"$3" "$4}' $M.list)
    cp $M/$id.go $wt/$f
    out=$(GOVC_FAILFAST=1 GOVC_FAILFAST_IGNORE=default-kept-on-failure GOVC_CACHE=/tmp/govc-cache ./bin/govc -repo $wt 2>&1 | grep '^FAIL' | grep -v default-kept | awk '{print $2}' | head -1)
    if [ -z "$out" ]; then echo "$id UNNOTICED $info"; else echo "$id caught $info [$out]"; fi
    git -C $wt checkout -q -- .
  done ;;
esac
