#!/bin/bash
# usage: confirm_seeded.sh <Cxx> <a|b> : confirms a seeded change in a scratch worktree of /repo and, when all three
# observations hold (suite passes with it, demo fails with it, demo passes without it), stores it under /verif/seeded/.
set -u
id=$1; x=$2
src=${SEEDSRC:-/tmp/seeded}/$id/$x
export GOFLAGS=-mod=mod GOPROXY=off GOSUMDB=off GOTOOLCHAIN=local
wt=$(mktemp -d /tmp/confirm.XXXXXX)
git -C /repo worktree add -q --detach "$wt" HEAD || exit 2
cleanup() { git -C /repo worktree remove --force "$wt" 2>/dev/null; rm -rf "$wt"; }
trap cleanup EXIT
cd "$wt"
git apply --check "$src/patch.diff" || { echo "$id/$x: patch does not apply"; exit 1; }
# where does the demo go?
demo=$(ls $src/demo*_test.go | head -1)
dir=.
pkgdir=$(python3 -c "
import json,sys
m=json.load(open('$src/meta.json'))
print(m.get('demo_dir') or m.get('demo_directory') or '')" 2>/dev/null)
case "$(basename $demo)" in
  demo_test.go) dir=. ;;
  *) p=$(head -20 "$demo" | grep -m1 '^package ' | awk '{print $2}'); p=${p%_test}
     case $p in cli) dir=. ;; *) dir=$(find internal -type d -name "$p" | head -1) ;; esac ;;
esac
[ -n "$pkgdir" ] && [ -d "$pkgdir" ] && dir=$pkgdir
git apply "$src/patch.diff"
go build ./... || { echo "$id/$x: does not build"; exit 1; }
if ! go test -vet=off -count=1 ./... > suite.log 2>&1; then echo "$id/$x: suite FAILS with the change"; tail -5 suite.log; exit 1; fi
cp "$demo" "$dir/zz_seeded_demo_test.go"
if (cd $dir && go test -vet=off -count=1 -timeout 120s . > "$wt/with.log" 2>&1); then echo "$id/$x: demo PASSES with the change (not a demonstration)"; exit 1; fi
git checkout -q -- . 
if ! (cd $dir && go test -vet=off -count=1 -timeout 120s . > "$wt/without.log" 2>&1); then echo "$id/$x: demo FAILS without the change"; tail -5 "$wt/without.log"; exit 1; fi
out=/verif/seeded/$id-${SEEDTAG:-}$x
mkdir -p "$out"
cp "$src/patch.diff" "$out/patch.diff"
cp "$demo" "$out/$(basename $demo)"
python3 - "$src/meta.json" "$out/meta.json" "$dir" <<'PY'
import json,sys
m=json.load(open(sys.argv[1]))
m["demo_package_dir"]=sys.argv[3]
m["confirmed_by"]="tools/confirm_seeded.sh in a scratch worktree of /repo HEAD: patch applies; go build ./... ok; go test -vet=off -count=1 ./... all ok with the change; demo fails with the change; demo passes without it"
json.dump(m,open(sys.argv[2],"w"),indent=1)
PY
echo "$id/$x: CONFIRMED (demo in $dir)"
