#!/usr/bin/env python3
"""Regenerates /verif/MANIFEST.json from obligations.map.json, manifest.meta.json and /repo's hook commits."""
import json, subprocess, os
os.chdir(os.path.dirname(os.path.abspath(__file__)) + "/..")
pm = json.load(open("obligations.map.json"))
meta = json.load(open("manifest.meta.json"))
props = [json.loads(l) for l in open("properties.jsonl")]
commits = subprocess.run(["git", "-C", "/repo", "log", "--format=%H %s"], capture_output=True, text=True).stdout.strip().split("\n")
hook_commits = [c.split()[0] for c in commits if c.split(" ", 1)[1].startswith("verif:")]
checks, na = [], []
for p in props:
    pid = p["id"]
    if pid in pm and pid in meta["claimed"]:
        m = meta["claimed"][pid]
        checks.append({
            "property_id": pid,
            "quick_cmd": f"./check {pid} quick",
            "thorough_cmd": f"./check {pid} thorough",
            "evidence_file": f"evidence/{pid}.json",
            "replay_cmd_template": "./check --replay {path}",
            "engine": "govc",
            "level_claimed": {"category": pm[pid].get("level", "proof"), "text": m["text"], "design_ref": m.get("design_ref", "DESIGN.md section 5, " + pid)},
            "level_note": m["note"],
            "technique": m.get("technique", "contract-based deductive verification: weakest-precondition VCs over go/ssa of the real code, contracts in //@ comment files, discharged by z3/cvc5"),
        })
    else:
        na.append({"property_id": pid, "reason": meta["not_applicable"].get(pid, "contracts for this property are not in place yet (not implemented); no other technique is substituted")})
man = {
    "version": 1,
    "setup_cmd": "./setup.sh",
    "hooks": {
        "guard": "verif",
        "enable": "go build -tags verif ./... (the only guarded files are comment-only zz_contracts_verif.go contract files; govc loads /repo with -tags=verif)",
        "baseline_off_cmd": "cd /repo && GOFLAGS=-mod=mod go test -vet=off -count=1 ./...",
        "source_commits": hook_commits,
        "add_only": True,
    },
    "engines": [{"name": "govc", "path": "engine", "serves_properties": [c["property_id"] for c in checks],
                 "kind_free_text": "deductive program verifier written for this task: symbolic execution / weakest preconditions over go/ssa (NaiveForm) of /repo, Gobra-style //@ contracts in comment-only files behind the build tag verif, one SMT-LIB query per path obligation, z3 4.8.12 / z3 5.1.0 / cvc5 1.0.3"}],
    "checks": checks,
    "not_applicable": na,
    "notes": meta.get("notes", ""),
}
json.dump(man, open("MANIFEST.json", "w"), indent=1)
print(f"MANIFEST.json: {len(checks)} claimed, {len(na)} not claimed, {len(hook_commits)} hook commits")
