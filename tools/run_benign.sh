#!/bin/bash
# Applies each behaviour-preserving change under /verif/benign to /repo, runs every contract check (one govc run over all
# functions, quick tier) and reports the obligations that fail beyond the known findings; then reverts. A non-empty list
# is a false alarm of the machinery.
cd /verif
[ -z "$(git -C /repo status --porcelain)" ] || { echo "/repo not clean"; exit 2; }
names=("$@"); [ ${#names[@]} -eq 0 ] && names=($(ls benign))
for n in "${names[@]}"; do
  if ! git -C /repo apply /verif/benign/$n/patch.diff 2>/dev/null; then echo "$n: patch does not apply"; continue; fi
  if ! (cd /repo && GOFLAGS=-mod=mod GOPROXY=off GOSUMDB=off GOTOOLCHAIN=local go build ./... 2>/dev/null); then echo "$n: does not build"; git -C /repo checkout -- .; git -C /repo clean -fdq; continue; fi
  out=$(./bin/govc 2>&1 | grep '^FAIL' | grep -v 'default-kept-on-failure' | awk '{print $2}' | tr '\n' ' ')
  if [ -z "$out" ]; then echo "$n: quiet"; else echo "$n: FALSE-ALARM $out"; fi
  git -C /repo checkout -- .; git -C /repo clean -fdq
done
