#!/bin/bash
# Applies each behaviour-preserving change under /verif/benign to a scratch worktree of /repo (HEAD), runs every contract
# check on it (one govc run over all functions, quick tier) and reports the obligations that fail beyond the known
# findings. A non-empty list is a false alarm of the machinery. The worktree is removed at the end.
cd /verif
names=("$@"); [ ${#names[@]} -eq 0 ] && names=($(ls benign))
wt=/tmp/benignwt.$$
git -C /repo worktree add -q --detach $wt HEAD || exit 2
trap 'git -C /repo worktree remove --force $wt; git -C /repo worktree prune' EXIT
export GOFLAGS=-mod=mod GOPROXY=off GOSUMDB=off GOTOOLCHAIN=local CGO_ENABLED=0
for n in "${names[@]}"; do
  if ! git -C $wt apply /verif/benign/$n/patch.diff 2>/dev/null; then echo "$n: patch does not apply"; continue; fi
  if ! (cd $wt && go build ./... 2>/dev/null); then echo "$n: does not build"; git -C $wt checkout -- .; git -C $wt clean -fdq; continue; fi
  out=$(./bin/govc -repo $wt 2>&1 | grep '^FAIL' | grep -v 'default-kept-on-failure' | awk '{print $2}' | tr '\n' ' ')
  if [ -z "$out" ]; then echo "$n: quiet"; else echo "$n: FALSE-ALARM $out"; fi
  git -C $wt checkout -- .; git -C $wt clean -fdq
done
