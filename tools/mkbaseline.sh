#!/bin/sh
# Refreshes /verif/baseline/mowcli: a pristine copy of the library's non-test sources at /repo's HEAD, the tree the
# contracts were last verified on. It is only used to attach a concrete input to an obligation that has already failed
# (replay/diff: the same scenario program is built against this copy and against /repo's working tree and the two
# transcripts are compared). Run it after every commit to /repo made from the unchanged, verified tree.
set -e
[ -z "$(git -C /repo status --porcelain)" ] || { echo "/repo has uncommitted changes: refusing to snapshot"; exit 1; }
rm -rf /verif/baseline/mowcli; mkdir -p /verif/baseline/mowcli
git -C /repo archive HEAD | tar -x -C /verif/baseline/mowcli
cd /verif/baseline/mowcli
find . -name '*_test.go' -delete; find . -name 'zz_contracts_verif.go' -delete
rm -rf testdata .github .gitignore .golangci.yml .goreleaser.yml Makefile README.md.template internal/fsm/fsmtest internal/matcher/matchertest
git -C /repo rev-parse HEAD > /verif/baseline/COMMIT
echo "baseline at $(cat /verif/baseline/COMMIT)"
