// mutsweep: a small source-level mutation generator for the library's non-test files. It prints one mutant per line
// (id, file, line, kind) and writes the mutated file contents to <out>/<id>.go, to be compiled in place of the original
// through `go build/test -overlay`. Used to look for changes that the test suite does not notice and the contracts
// should (tools/run_mutsweep.sh).
package main

import (
	"bytes"
	"fmt"
	"go/ast"
	"go/parser"
	"go/printer"
	"go/token"
	"os"
	"path/filepath"
	"strings"
)

type mutation struct {
	kind  string
	apply func() // mutates the AST in place
	undo  func()
	pos   token.Pos
}

func main() {
	root, out := os.Args[1], os.Args[2]
	os.MkdirAll(out, 0o755)
	var files []string
	filepath.Walk(root, func(p string, info os.FileInfo, err error) error {
		if err != nil {
			return nil
		}
		if info.IsDir() {
			b := filepath.Base(p)
			if strings.HasPrefix(b, ".") || strings.HasSuffix(b, "test") || b == "fsmdot" || b == "vendor" {
				return filepath.SkipDir
			}
			return nil
		}
		if strings.HasSuffix(p, ".go") && !strings.HasSuffix(p, "_test.go") && !strings.HasPrefix(filepath.Base(p), "zz_") && filepath.Base(p) != "doc.go" {
			files = append(files, p)
		}
		return nil
	})
	id := 0
	for _, f := range files {
		fset := token.NewFileSet()
		af, err := parser.ParseFile(fset, f, nil, parser.ParseComments)
		if err != nil {
			continue
		}
		var muts []mutation
		swap := map[token.Token][]token.Token{
			token.EQL: {token.NEQ}, token.NEQ: {token.EQL}, token.LSS: {token.LEQ, token.GTR}, token.LEQ: {token.LSS}, token.GTR: {token.GEQ, token.LSS}, token.GEQ: {token.GTR},
			token.LAND: {token.LOR}, token.LOR: {token.LAND}, token.ADD: {token.SUB}, token.SUB: {token.ADD},
		}
		var fn string
		ast.Inspect(af, func(n ast.Node) bool {
			switch n := n.(type) {
			case *ast.FuncDecl:
				fn = n.Name.Name
			case *ast.BinaryExpr:
				if n.Op == token.ADD {
					// string concatenation: skip (mostly messages)
					if bl, ok := n.X.(*ast.BasicLit); ok && bl.Kind == token.STRING {
						return true
					}
					if bl, ok := n.Y.(*ast.BasicLit); ok && bl.Kind == token.STRING {
						return true
					}
				}
				for _, to := range swap[n.Op] {
					n, from, to := n, n.Op, to
					muts = append(muts, mutation{kind: fmt.Sprintf("%s:%s->%s", fn, from, to), pos: n.OpPos, apply: func() { n.Op = to }, undo: func() { n.Op = from }})
				}
			case *ast.BasicLit:
				if n.Kind == token.STRING && len(n.Value) >= 3 && len(n.Value) <= 6 && n.Value[0] == '"' {
					n, from := n, n.Value
					to := `""`
					if from == `"-"` {
						to = `"--"`
					} else if from == `"--"` {
						to = `"-"`
					}
					muts = append(muts, mutation{kind: fmt.Sprintf("%s:str%s->%s", fn, from, to), pos: n.Pos(), apply: func() { n.Value = to }, undo: func() { n.Value = from }})
				}
				if n.Kind == token.INT && (n.Value == "0" || n.Value == "1" || n.Value == "2") {
					n, from := n, n.Value
					to := map[string]string{"0": "1", "1": "0", "2": "1"}[from]
					muts = append(muts, mutation{kind: fmt.Sprintf("%s:%s->%s", fn, from, to), pos: n.Pos(), apply: func() { n.Value = to }, undo: func() { n.Value = from }})
					if from == "1" {
						muts = append(muts, mutation{kind: fmt.Sprintf("%s:1->2", fn), pos: n.Pos(), apply: func() { n.Value = "2" }, undo: func() { n.Value = from }})
					}
				}
			case *ast.Ident:
				if n.Name == "true" || n.Name == "false" {
					n, from := n, n.Name
					to := map[string]string{"true": "false", "false": "true"}[from]
					muts = append(muts, mutation{kind: fmt.Sprintf("%s:%s->%s", fn, from, to), pos: n.Pos(), apply: func() { n.Name = to }, undo: func() { n.Name = from }})
				}
			case *ast.IfStmt:
				n, c := n, n.Cond
				muts = append(muts, mutation{kind: fn + ":negate-if", pos: n.Pos(), apply: func() { n.Cond = &ast.UnaryExpr{Op: token.NOT, X: &ast.ParenExpr{X: c}} }, undo: func() { n.Cond = c }})
			case *ast.UnaryExpr:
				if n.Op == token.NOT {
					// remove the negation: !x -> x  (done by turning it into +x is not possible for bools: wrap instead)
					n, x := n, n.X
					muts = append(muts, mutation{kind: fn + ":drop-not", pos: n.Pos(), apply: func() { n.X = &ast.UnaryExpr{Op: token.NOT, X: &ast.ParenExpr{X: x}} }, undo: func() { n.X = x }})
				}
			case *ast.CompositeLit:
				for i, el := range n.Elts {
					if kv, ok := el.(*ast.KeyValueExpr); ok {
						if _, isKeyIdent := kv.Key.(*ast.Ident); !isKeyIdent {
							continue
						}
						n, i, el := n, i, el
						muts = append(muts, mutation{kind: fn + ":drop-field-" + kv.Key.(*ast.Ident).Name, pos: kv.Pos(), apply: func() {
							n.Elts = append(append([]ast.Expr{}, n.Elts[:i]...), n.Elts[i+1:]...)
						}, undo: func() {
							n.Elts = append(append(append([]ast.Expr{}, n.Elts[:i]...), el), n.Elts[i:]...)
						}})
					}
				}
				// swap the values of two adjacent key-value fields
				for i := 0; i+1 < len(n.Elts); i++ {
					a, ok1 := n.Elts[i].(*ast.KeyValueExpr)
					b, ok2 := n.Elts[i+1].(*ast.KeyValueExpr)
					if ok1 && ok2 {
						a, b := a, b
						muts = append(muts, mutation{kind: fn + ":swap-fields", pos: a.Pos(), apply: func() { a.Value, b.Value = b.Value, a.Value }, undo: func() { a.Value, b.Value = b.Value, a.Value }})
					}
				}
			case *ast.CallExpr:
				if id, ok := n.Fun.(*ast.Ident); ok && id.Name == "append" && len(n.Args) == 2 && !n.Ellipsis.IsValid() {
					// x = append(x, y) -> x = append(x)  (the element is dropped)
					n, args := n, n.Args
					muts = append(muts, mutation{kind: fn + ":drop-append", pos: n.Pos(), apply: func() { n.Args = args[:1] }, undo: func() { n.Args = args }})
				}
				if len(n.Args) >= 2 {
					for i := 0; i+1 < len(n.Args); i++ {
						n, i := n, i
						muts = append(muts, mutation{kind: fn + ":swap-args", pos: n.Args[i].Pos(), apply: func() { n.Args[i], n.Args[i+1] = n.Args[i+1], n.Args[i] }, undo: func() { n.Args[i], n.Args[i+1] = n.Args[i+1], n.Args[i] }})
					}
				}
			case *ast.BranchStmt:
				if n.Label == nil && (n.Tok == token.CONTINUE || n.Tok == token.BREAK) {
					n, from := n, n.Tok
					to := token.BREAK
					if from == token.BREAK {
						to = token.CONTINUE
					}
					muts = append(muts, mutation{kind: fmt.Sprintf("%s:%s->%s", fn, from, to), pos: n.Pos(), apply: func() { n.Tok = to }, undo: func() { n.Tok = from }})
				}
			case *ast.BlockStmt:
				// delete one statement (assignments, expression statements, inc/dec), never declarations
				for i, st := range n.List {
					switch s := st.(type) {
					case *ast.ExprStmt, *ast.IncDecStmt:
					case *ast.AssignStmt:
						if s.Tok == token.DEFINE {
							continue
						}
					default:
						continue
					}
					n, i, st := n, i, st
					muts = append(muts, mutation{kind: fn + ":delete-stmt", pos: st.Pos(), apply: func() { n.List[i] = &ast.EmptyStmt{Semicolon: st.Pos()} }, undo: func() { n.List[i] = st }})
				}
			}
			return true
		})
		rel, _ := filepath.Rel(root, f)
		for _, m := range muts {
			m.apply()
			var buf bytes.Buffer
			if err := printer.Fprint(&buf, fset, af); err == nil {
				id++
				name := fmt.Sprintf("%04d", id)
				os.WriteFile(filepath.Join(out, name+".go"), buf.Bytes(), 0o644)
				fmt.Printf("%s\t%s\t%d\t%s\n", name, rel, fset.Position(m.pos).Line, m.kind)
			}
			m.undo()
		}
	}
}
