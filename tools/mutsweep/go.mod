module mutsweep

go 1.21
