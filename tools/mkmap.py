#!/usr/bin/env python3
"""Rewrites the `funcs`/`clauses`/`exclude` fields of obligations.map.json from the dependency groups below.
A property is mapped to every function under contract whose behaviour it depends on (its cone in the call graph of
the library, cut at the contracts), not only to the function that states it: a change inside any of them that breaks
one of their own contracts breaks the argument for the property."""
import json, sys
G = {
 'LEX':    [r'lexer\..*'],
 'PARSE':  [r'parser\..*'],
 'MATCH':  [r'matcher\..*'],
 'FSM':    [r'fsm\.(\(\*State\)\.(apply|Parse|T|has|simplifySelf)|NewState|simplify|removeTransitionAt|sameArgs|\(StateTransitions\)\.Less)'],
 'FILL':   [r'fsm\.fillContainers'],
 'VSET':   [r'values\.\(\*.*Value\)\.(Set|Clear|IsBoolFlag)', r'values\.IsBool', r'lemma\.builtinCapabilities'],
 'VENV':   [r'values\.(SetFromEnv|setMultivalued)'],
 'VTEXT':  [r'values\.(DefaultValue|\(\*.*Value\)\.(String|IsDefault))'],
 'FLOW':   [r'flow\..*', r'mow\.cli\.Exit'],
 'DECL':   [r'mow\.cli\.(mkOptStrs|validArgName|\(\*Cmd\)\.(mkOpt|mkArg))',
            r'mow\.cli\.\((Bool|String|Int|Float64|Strings|Ints|Floats64)(Opt|Arg)\)\.value',
            r'mow\.cli\.\(\*Cmd\)\.(Bool|String|Int|Float64|Strings|Ints|Floats64)(Opt|Arg)?(Ptr)?', r'mow\.cli\.\(\*Cmd\)\.Var(Opt|Arg)?', r'mow\.cli\.\(Var(Opt|Arg)\)\.value', r'mow\.cli\.App',
            r'mow\.cli\.\(\*Cli\)\.Version', r'mow\.cli\.\(\*Cmd\)\.Command'],
 'INIT':   [r'mow\.cli\.\(\*Cmd\)\.doInit'],
 'ROUTE':  [r'mow\.cli\.\(\*Cmd\)\.(parse|getOptsAndArgs|helpIndex|isAlias|isFirstItemAmong|onError)', r'mow\.cli\.\(\*Cli\)\.(parse|Run)', r'lemma\.help.*', r'mow\.cli\.init\$1', r'mow\.cli\.ActionCommand\$1'],
 'HELP':   [r'mow\.cli\.(joinStrings|formatValueForHelp|formatEnvVarsForHelp|formatOptNamesForHelp|printTabbedRow|\(\*Cmd\)\.(printHelp|PrintHelp|PrintLongHelp))'],
 'SWEEP':  [r'sweep\..*'],
}
P = {
 # CORE: everything on the way from the declarations and the argument vector to the verdict and the bound values
 'C01': 'CORE',
 'C02': 'CORE',
 'C03': 'CORE VTEXT FLOW HELP',
 'C04': 'CORE HELP FLOW',
 'C05': 'FLOW ROUTE INIT FSM FILL',
 'C06': 'CORE VTEXT',
 'C07': 'CORE HELP FLOW',
 'C08': 'LEX PARSE INIT ROUTE DECL',
 'C09': 'CORE',
 'C10': 'CORE',
 'C11': 'CORE',
 'C12': 'CORE',
 'C13': 'CORE',
 'C14': 'ROUTE HELP INIT DECL VTEXT FSM FILL',
 'C15': 'CORE',
 'C16': 'INIT DECL HELP ROUTE LEX PARSE',
 'C17': 'HELP VTEXT DECL INIT ROUTE',
 'C18': 'DECL LEX INIT HELP',
 'C19': 'CORE VTEXT',
 'C20': 'CORE VTEXT FLOW HELP',
}
# C03 (termination, no crash) used to keep only the safety/termination/precondition obligations; rounds 5 and 6 of the seeded
# changes showed that the functional clauses are what the safety obligations of the callers rest on (a command whose fsm
# was never built, a version option that is nil): C03 now takes every obligation of its cone like the others.
# DEEP: the groups a property is stated on. In the thorough tier their obligations get the long budgets and every back end
# on every path; the rest of the cone is decided as in the quick tier (the same obligations are the deep ones of the
# property they belong to, so across the twenty thorough checks everything gets the thorough treatment at least once).
DEEP = {
 'C01': 'PARSE MATCH FSM', 'C02': 'MATCH FSM FILL', 'C03': 'LEX PARSE MATCH FSM', 'C04': 'ROUTE INIT', 'C05': 'FLOW ROUTE',
 'C06': 'VSET VENV DECL', 'C07': 'ROUTE FLOW', 'C08': 'LEX PARSE INIT', 'C09': 'MATCH FSM LEX', 'C10': 'MATCH', 'C11': 'MATCH FSM',
 'C12': 'MATCH VENV FSM', 'C13': 'VSET FILL', 'C14': 'ROUTE HELP', 'C15': 'FILL MATCH', 'C16': 'INIT DECL', 'C17': 'HELP VTEXT',
 'C18': 'DECL LEX', 'C19': 'VSET FILL MATCH', 'C20': 'SWEEP INIT DECL',
}
m = json.load(open('/verif/obligations.map.json'))
for pid, groups in P.items():
    fs = []
    for g in (groups + ' SWEEP').split():
        fs += (sum((G[x] for x in 'LEX PARSE MATCH FSM FILL VSET VENV DECL INIT ROUTE'.split()), []) if g == 'CORE' else G[g])
    m[pid]['funcs'] = fs
    m[pid].pop('clauses', None)
    ex = [] if pid == 'C06' else [r'.*default-kept-on-failure.*']
    m[pid]['exclude'] = ex
    m[pid]['groups'] = groups
    m[pid]['deep'] = sum((G[g] for g in (DEEP[pid] + ' SWEEP').split()), [])
json.dump(m, open('/verif/obligations.map.json', 'w'), indent=1)
print('ok')
