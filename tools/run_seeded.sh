#!/bin/bash
# usage: run_seeded.sh [seed-dir-name ...]   (default: all)
# Applies each seeded change to /repo, runs the quick check of the property it breaks (and of the other claimed
# properties listed as argument 2.. via PROPS env), records which obligations fail, and reverts the change.
cd /verif
seeds=("$@"); [ ${#seeds[@]} -eq 0 ] && seeds=($(ls seeded | grep -E '^C[0-9]+-(r[0-9])?[abc]$'))
claimed=$(python3 -c "import json;print(' '.join(c['property_id'] for c in json.load(open('MANIFEST.json'))['checks']))")
for sd in "${seeds[@]}"; do
  prop=${sd%%-*}
  [ -n "$(git -C /repo status --porcelain)" ] && { echo "/repo not clean"; exit 2; }
  git -C /repo apply /verif/seeded/$sd/patch.diff || { echo "$sd: patch does not apply"; continue; }
  res=""
  props="$prop"; [ -n "$ALLPROPS" ] && props="$claimed"
  for p in $props; do
    echo " $claimed " | grep -q " $p " || { res="$res $p:not-claimed"; continue; }
    out=$(./check $p quick 2>&1); rc=$?
    n=$(echo "$out" | grep -c '^VIOLATION')
    fails=$(echo "$out" | grep '^FAILED' | awk '{print $2}' | tr '\n' ',' )
    [ $rc -ne 0 ] && res="$res $p:DETECTED($n:$fails)" || res="$res $p:missed"
  done
  git -C /repo checkout -q -- .
  echo "$sd:$res"
done
